------------------------------ MODULE EpochText ------------------------------
(***************************************************************************)
(* The text forms of an epoch (DESIGN.md, Appendix A.5): what Display and   *)
(* its relatives print, and the documented ISO 8601 / RFC 3339 input        *)
(* grammar with the value each sentence denotes.  Strings are sequences of  *)
(* code points.                                                             *)
(***************************************************************************)
EXTENDS SeriesMachine, LeapFile

(* YYYY-MM-DDTHH:MM:SS[.NNNNNNNNN] of a field tuple *)
DateTimeText(f, withZeroFrac) ==
  PadSigned(f[1], 4) \o <<cDash>> \o Pad(f[2], 2) \o <<cDash>> \o Pad(f[3], 2) \o <<cT>>
  \o Pad(f[4], 2) \o <<cColon>> \o Pad(f[5], 2) \o <<cColon>> \o Pad(f[6], 2)
  \o (IF f[7] # 0 \/ withZeroFrac THEN <<cDot>> \o Pad(f[7], 9) ELSE <<>>)

(* the default text form: fields in the epoch's own scale, fraction only when non-zero, scale name *)
Display(ts, v) == DateTimeText(Fields(ts, v), FALSE) \o <<cSpace>> \o ScaleName(ts)
(* RFC 3339 rendering of a UTC count *)
Rfc3339(u)     == DateTimeText(Fields(UTC, u), FALSE) \o <<cPlus, 48, 48, cColon, 48, 48>>

-----------------------------------------------------------------------------
(* The input grammar:                                                       *)
(*   iso   := date sep time [ '.' frac ] [ zone ] [ ' ' scale ]             *)
(*   date  := Y{1..9} '-' MM '-' DD       sep := 'T' | ' '                  *)
(*   time  := HH ':' MM ':' SS            frac := 1..9 digits               *)
(*   zone  := 'Z' | ('+'|'-') HH ':' MM   (no scale after 'Z')              *)
(*   scale := the nine names | GPS GAL BDS QZSS                             *)
(* ParseIso returns [g |-> FALSE] for a string outside the grammar, else    *)
(* the fields, the offset (sign, hours, minutes) and the scale.             *)
NotIso == [g |-> FALSE]
Two(s, i) == IsDigit(At(s, i)) /\ IsDigit(At(s, i + 1))
ParseIso(s0) ==
  LET s  == Trim(s0)
      ny == DigitRun(s, 1)
      a  == ny + 1                     \* position of the first '-'
  IN
  IF ~(ny \in 1..6 /\ At(s, a) = cDash /\ Two(s, a + 1) /\ At(s, a + 3) = cDash /\ Two(s, a + 4)
       /\ At(s, a + 6) \in {cT, cSpace} /\ Two(s, a + 7) /\ At(s, a + 9) = cColon /\ Two(s, a + 10)
       /\ At(s, a + 12) = cColon /\ Two(s, a + 13) /\ ~IsDigit(At(s, a + 15)))
  THEN NotIso
  ELSE
  LET p0 == a + 15                     \* first position after the seconds
      hasFrac == At(s, p0) = cDot
      nf == IF hasFrac THEN DigitRun(s, p0 + 1) ELSE 0
      p1 == IF hasFrac THEN p0 + 1 + nf ELSE p0
      zc == At(s, p1)
      isZ == zc = cZ
      isOff == zc \in {cPlus, cDash}
      offOK == isOff /\ Two(s, p1 + 1) /\ At(s, p1 + 3) = cColon /\ Two(s, p1 + 4) /\ ~IsDigit(At(s, p1 + 6))
      p2 == IF isZ THEN p1 + 1 ELSE IF isOff THEN p1 + 6 ELSE p1
      hasScale == p2 <= Len(s)
      word == IF hasScale /\ At(s, p2) = cSpace THEN TrimL(SubSeq(s, p2 + 1, Len(s))) ELSE <<>>
      ts == IF hasScale THEN ScaleOfName(word) ELSE 4
  IN
  IF (hasFrac /\ nf \notin 1..9) \/ (isOff /\ ~offOK) \/ (isZ /\ hasScale)
     \/ (hasScale /\ (At(s, p2) # cSpace \/ ts < 0))
  THEN NotIso
  ELSE [g |-> TRUE,
        y |-> NatAt(s, 1, ny), m |-> NatAt(s, a + 1, 2), d |-> NatAt(s, a + 4, 2),
        hh |-> NatAt(s, a + 7, 2), mi |-> NatAt(s, a + 10, 2), ss |-> NatAt(s, a + 13, 2),
        ns |-> IF hasFrac THEN NatAt(s, p0 + 1, nf) * Pow10N(9 - nf) ELSE 0,
        sign |-> IF isOff /\ zc = cDash THEN -1 ELSE 1,
        oh |-> IF isOff THEN NatAt(s, p1 + 1, 2) ELSE 0,
        om |-> IF isOff THEN NatAt(s, p1 + 4, 2) ELSE 0,
        ts |-> ts]

(* the elapsed time (in scale p.ts) that a sentence denotes: the fields minus the offset *)
IsoValue(p) ==
  Sub(FromFieldsRaw(p.ts, p.y, p.m, p.d, p.hh, p.mi, p.ss, p.ns),
      Mul(N(p.sign * (p.oh * 3600 + p.om * 60)), U[4]))
IsoMustAccept(p) == MustAccept(p.y, p.m, p.d, p.hh, p.mi, p.ss, p.ns) /\ p.oh <= 23 /\ p.om <= 59
IsoMustReject(p) == MustReject(p.y, p.m, p.d, p.hh, p.mi, p.ss, p.ns) \/ p.oh > 24 \/ p.om > 59      \* (offset hours 24: unconstrained, like hour 24)

(* judgement of one parse of string s: ok says a value was returned, r is that value *)
ParseEpochOK(s, ok, r) ==
  LET p == ParseIso(s) IN
    p.g => /\ (IsoMustAccept(p) => ok)
           /\ (IsoMustReject(p) => ~ok)
           /\ (ok /\ IsoMustAccept(p) /\ p.ss < 60 /\ InRange(IsoValue(p))) => r = Ep(p.ts, IsoValue(p))
=============================================================================
