SPECIFICATION Spec
INVARIANTS RoundTripEpoch RoundTripDuration IsoFormatIsDisplay FlexFormatIsDisplay
CHECK_DEADLOCK FALSE
