SPECIFICATION Spec
INVARIANT TypeOK
PROPERTY C05_SameInstant
CHECK_DEADLOCK FALSE
