---------------------------- MODULE SeriesMachine ----------------------------
(***************************************************************************)
(* TimeSeries, the one genuinely stateful object of hifitime, as a state    *)
(* machine (C15; DESIGN.md Appendix A.8).                                   *)
(* State ser = [start, span, step, k, incl]; SNew builds it from a start    *)
(* epoch, an end epoch and a step; SNext is one call of Iterator::next.     *)
(* Each item is start + k * step, computed from the start (no accumulated   *)
(* drift); the span is end - start as the library measures a difference of  *)
(* epochs (in the scale of the left operand, C04).                          *)
(***************************************************************************)
EXTENDS EpochMachine

VARIABLES ser, sout
svars == <<ser, sout>>

NoSeries == [start |-> Ep(TAI, Z), span |-> Z, step |-> One, k |-> 0, incl |-> FALSE]
SInit == ser = NoSeries /\ sout = <<"init">>

(* startc: the start re-expressed in the scale of the end (inferred by TLC in trace validation) *)
SNew(start, end, step, incl, startc) ==
  /\ ConvAny(start, end.ts, startc)
  /\ ser' = [start |-> start, span |-> DSub(end.v, startc.v), step |-> step, k |-> 0, incl |-> incl]
  /\ sout' = <<"new">>

SerOffset(s) == DMulI(s.step, N(s.k))
(* the comparison is between the exact product k * step and the span: a product beyond the largest   *)
(* duration is beyond every span (a saturated product would equal a span of exactly the largest      *)
(* duration for ever, and an inclusive series over such a span would never terminate)                *)
Exhausted(s) == IF s.incl THEN Lt(s.span, Mul(s.step, N(s.k))) ELSE Le(s.span, Mul(s.step, N(s.k)))
SNext ==
  IF Exhausted(ser)
  THEN UNCHANGED ser /\ sout' = <<"none">>
  ELSE /\ ser' = [ser EXCEPT !.k = @ + 1]
       /\ sout' = <<"some", Ep(ser.start.ts, DAdd(ser.start.v, SerOffset(ser)))>>

(* Iterator::nth(n) (the standard default: n calls of next() whose results are dropped, then    *)
(* one more): lets a trace cross millions of items while every call still goes through next().  *)
(* Valid for series whose offsets do not saturate (the harness keeps them far from the bounds). *)
ExhAt(s, j) == IF s.incl THEN Lt(s.span, Mul(s.step, N(j))) ELSE Le(s.span, Mul(s.step, N(j)))
(* number of items of the whole series: the least exhausted index *)
CountOf(s) == IF s.incl THEN (IF Lt(s.span, Z) THEN 0 ELSE I(DivF(s.span, s.step)) + 1)
              ELSE (IF Le(s.span, Z) THEN 0 ELSE I(DivF(Sub(s.span, One), s.step)) + 1)
SNth(n) ==
  IF ser.k + n >= CountOf(ser)
  THEN ser' = [ser EXCEPT !.k = IF @ >= CountOf(ser) THEN @ ELSE CountOf(ser)] /\ sout' = <<"none">>
  ELSE /\ ser' = [ser EXCEPT !.k = @ + n + 1]
       /\ sout' = <<"some", Ep(ser.start.ts, DAdd(ser.start.v, DMulI(ser.step, N(ser.k + n))))>>
=============================================================================
