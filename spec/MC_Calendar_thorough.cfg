SPECIFICATION Spec
CONSTANT Ranges <- RangesThorough
INVARIANT Inverse
PROPERTY Successor
CHECK_DEADLOCK FALSE
