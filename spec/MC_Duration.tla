----------------------------- MODULE MC_Duration -----------------------------
(***************************************************************************)
(* Exhaustive, scaled instance of the Duration machine (L1).                *)
(* NPC = 12 "nanoseconds" per century, centuries -3..2, so the whole value  *)
(* space is -36..36 and every case distinction of the real type exists:     *)
(* carry and borrow across a century, the zero crossing, the full-century   *)
(* MAX, saturation on either side.  TLC explores every chain of calls and   *)
(* checks the listed properties C01, C02, C03, C11 (decomposition), C14 as  *)
(* invariants, action properties and laws over all pairs/triples.           *)
(***************************************************************************)
EXTENDS Integers, Sequences, TLC

CONSTANTS NPCc, CNEGc, CMAXc, NMAXc, QMAXc
CMINc == -CNEGc

VARIABLES d, out

Sgn(x) == IF x < 0 THEN -1 ELSE IF x = 0 THEN 0 ELSE 1
AbsI(x) == IF x < 0 THEN -x ELSE x
TQuot(a, b) == Sgn(a) * Sgn(b) * (AbsI(a) \div AbsI(b))

M == INSTANCE DurationMachine WITH
       NPC <- NPCc, CMIN <- CMINc, CMAX <- CMAXc,
       N <- LAMBDA x : x, I <- LAMBDA x : x,
       Add <- LAMBDA a, b : a + b, Sub <- LAMBDA a, b : a - b, Mul <- LAMBDA a, b : a * b,
       QuotT <- TQuot,
       DivF <- LAMBDA a, b : a \div b, ModF <- LAMBDA a, b : a % b,
       Lt <- LAMBDA a, b : a < b, Le <- LAMBDA a, b : a <= b,
       U <- <<1, 1, 1, 2, 4, 4, NPCc, 2 * NPCc, NPCc>>   \* = Uc below

Dom   == M!MinV .. M!MaxV
Cent  == CMINc .. CMAXc
Nanos == 0 .. NMAXc            \* constructor nanosecond field, several centuries wide
Fact  == (-QMAXc) .. QMAXc

Init == M!DInit
Next ==
  \/ \E c \in Cent, n \in Nanos : M!MLoad(c, n)
  \/ \E x \in (3 * M!MinV) .. (3 * M!MaxV) : M!MFromTotal(x)
  \/ \E q \in Fact, u \in 1..9 : M!MFromUnit(q, u)
  \/ \E b \in Dom : M!MAdd(b) \/ M!MSub(b) \/ M!MCmp(b)
  \/ M!MNeg \/ M!MAbs \/ M!MParts \/ M!MTotal \/ M!MDecompose
  \/ \E q \in Fact : M!MMulI(q) \/ M!MDivI(q)
  \/ \E s \in Dom : M!MFloor(s) \/ M!MCeil(s) \/ M!MRound(s)
Spec == Init /\ [][Next]_<<d, out>>

-----------------------------------------------------------------------------
(* state invariants *)
Uc == <<1, 1, 1, 2, 4, 4, NPCc, 2 * NPCc, NPCc>>
DigitsInRange(x) == /\ x[2] >= 0
                    /\ \A k \in 3..8 : x[k] >= 0 /\ x[k] * Uc[9 - k] < Uc[10 - k]
TypeOK       == d \in Dom
C02_Canonical == LET p == M!Parts(d) IN M!Canonical(p) /\ M!Val(p[1], p[2]) = d
OutInRange   == out[1] = "dur" => out[2] \in Dom
(* the decomposition shown to the user is exact and in range (C11) *)
C11_Decompose ==
  out[1] = "dec" =>
    LET x == out[2] IN
      /\ x[1] = Sgn(d)
      /\ M!ComposeMag(x[2], x[3], x[4], x[5], x[6], x[7], x[8]) = AbsI(d)
      /\ DigitsInRange(x)

(* action properties: what one call does to the register *)
C01_Step ==
  [][ /\ (out'[1] = "dur" => d' = out'[2])
      /\ (out'[1] # "dur" => d' = d) ]_<<d, out>>

-----------------------------------------------------------------------------
(* laws over the whole scaled domain (evaluated once, as assumptions) *)
Lex(p, q) == p[1] < q[1] \/ (p[1] = q[1] /\ p[2] < q[2])

\* C02: one canonical form per value, and the constructor clamps the exact count
ASSUME \A a, b \in Dom : (M!Parts(a) = M!Parts(b)) => a = b
ASSUME \A c \in Cent, n \in Nanos :
          LET v == M!FromParts(c, n) IN
            /\ v \in Dom
            /\ (c * NPCc + n \in Dom => v = c * NPCc + n)
            /\ (c * NPCc + n > M!MaxV => v = M!MaxV)
\* C03: the order on values is the lexicographic order on the observable parts
ASSUME \A a, b \in Dom : (a < b) <=> Lex(M!Parts(a), M!Parts(b))
ASSUME \A a, b \in Dom : M!DCmp(a, b) = -M!DCmp(b, a)
ASSUME \A a, b, c \in Dom : (M!DCmp(a, b) <= 0 /\ M!DCmp(b, c) <= 0) => M!DCmp(a, c) <= 0
ASSUME \A a, b \in Dom : (a + b \in Dom) => ((M!DCmp(M!DAdd(a, b), a) > 0) <=> b > 0)
ASSUME \A a, b \in Dom : M!DEq(a, b) => (AbsI(a) = AbsI(b))
ASSUME \A a, b \in Dom : (M!DEq(a, b) /\ a # b) => (a = -b /\ AbsI(a) < NPCc)
\* C01: exact when representable, saturating on the side of the true result
ASSUME \A a, b \in Dom :
          /\ (a + b \in Dom => M!DAdd(a, b) = a + b)
          /\ (a + b > M!MaxV => M!DAdd(a, b) = M!MaxV)
          /\ (a + b < M!MinV => M!DAdd(a, b) = M!MinV)
          /\ (a - b \in Dom => M!DSub(a, b) = a - b)
          /\ (a - b > M!MaxV => M!DSub(a, b) = M!MaxV)
          /\ (a - b < M!MinV => M!DSub(a, b) = M!MinV)
          /\ (a + b \in Dom => M!DSub(M!DAdd(a, b), b) = a)
ASSUME \A a \in Dom : M!DNeg(M!DNeg(a)) = a /\ M!DNeg(a) = -a /\ M!DAbs(a) = AbsI(a)
ASSUME \A a \in Dom, q \in Fact :
          /\ (a * q \in Dom => M!DMulI(a, q) = a * q)
          /\ (a * q > M!MaxV => M!DMulI(a, q) = M!MaxV)
          /\ (a * q < M!MinV => M!DMulI(a, q) = M!MinV)
          /\ (q # 0 => /\ AbsI(M!DDivI(a, q) * q) <= AbsI(a)
                       /\ AbsI(a) - AbsI(M!DDivI(a, q) * q) < AbsI(q)
                       /\ (M!DDivI(a, q) # 0 => Sgn(M!DDivI(a, q)) = Sgn(a) * Sgn(q)))
\* C14: floor is the greatest multiple not above, ceil the least strictly above, round the nearer (ties up)
ASSUME \A a, s \in Dom :
          s # 0 =>
            LET f == M!FloorRaw(a, s) IN
              /\ f % AbsI(s) = 0 /\ f <= a /\ a < f + AbsI(s)
              /\ M!Floor(a, s) = M!Clamp(f)
              /\ M!Ceil(a, s) = M!Clamp(f + AbsI(s))
              /\ M!Round(a, s) \in {M!Clamp(f), M!Clamp(f + AbsI(s))}
              /\ (a - f < f + AbsI(s) - a => M!Round(a, s) = M!Clamp(f))
              /\ (a - f >= f + AbsI(s) - a => M!Round(a, s) = M!Clamp(f + AbsI(s)))
\* the relaxation at saturation never applies when floor and ceil are both representable
ASSUME \A a, s \in Dom :
          (s # 0 /\ M!FloorRaw(a, s) \in Dom /\ M!FloorRaw(a, s) + AbsI(s) \in Dom)
             => (M!CeilSet(a, s) = {M!Ceil(a, s)} /\ M!RoundSet(a, s) = {M!Round(a, s)})
ASSUME \A a \in Dom : M!Floor(a, 0) = 0 /\ M!Ceil(a, 0) = 0 /\ M!Round(a, 0) = 0
\* C11/C02: compose inverts decompose
ASSUME \A a \in Dom :
          LET x == M!Decompose(a) IN
            /\ M!Compose(x[1], x[2], x[3], x[4], x[5], x[6], x[7], x[8]) = a
            /\ DigitsInRange(x)
=============================================================================
