--------------------------- MODULE TokenizerModel ---------------------------
(***************************************************************************)
(* The implementation-shaped model of Epoch::from_gregorian_str over        *)
(* character classes (see MC_Tokenizer for the exploration and the          *)
(* invariants): Run(s) is the fate of the class string s in the tokenizer   *)
(* as it is now, RunOld(s) in the tokenizer as found.  Pure definitions, so *)
(* that the trace specification can evaluate the same model on the class    *)
(* string of a concrete input and compare with what the real parser did     *)
(* (transcription drift, DESIGN.md section 9).                              *)
(***************************************************************************)
EXTENDS TokClasses

(* Token::advance_with: the next token, or "ERR" *)
Advance(tok, c) ==
  CASE tok = "Year"    -> IF c = "-" THEN "Month" ELSE "ERR"
    [] tok = "Month"   -> IF c = "-" THEN "Day" ELSE "ERR"
    [] tok = "Day"     -> IF c \in {"T", " "} THEN "Hour" ELSE "ERR"
    [] tok = "Hour"    -> IF c = ":" THEN "Minute" ELSE "ERR"
    [] tok = "Minute"  -> IF c = ":" THEN "Second" ELSE "ERR"
    [] tok = "Second"  -> IF c = "." THEN "Subsecond" ELSE IF c \in {" ", "Z"} THEN "Timescale"
                          ELSE IF c \in {"-", "+"} THEN "OffsetHours" ELSE "ERR"
    [] tok = "Subsecond" -> IF c \in {" ", "Z"} THEN "Timescale" ELSE IF c \in {"-", "+"} THEN "OffsetHours" ELSE "ERR"
    [] tok = "OffsetHours" -> IF c = ":" THEN "OffsetMinutes" ELSE "ERR"
    [] tok = "OffsetMinutes" -> IF c \in {" ", "Z"} THEN "Timescale" ELSE "ERR"
    [] OTHER -> "ERR"
HasGregPos(tok) == tok \in {"Year", "Month", "Day", "Hour", "Minute", "Second", "Subsecond", "OffsetHours", "OffsetMinutes"}

Lexes(sub) == sub # <<>> /\ Len(sub) <= 9 /\ \A k \in 1..Len(sub) : AsciiDigit(sub[k])     \* (ten digits may overflow an i32: an error)

(* ---------------------------------------------------------------- the tokenizer as it is now *)
(* idx: byte offset of character i; prev: byte offset where the current field began *)
RECURSIVE Loop(_, _, _, _, _)
Loop(s, i, idx, tok, prev) ==
  IF i > Len(s) THEN <<"end", tok>>
  ELSE LET c == s[i]  len == Bytes(c)  isLast == (idx + len = TotalBytes(s)) IN
    IF Numeric(c) /\ ~isLast THEN Loop(s, i + 1, idx + len, tok, prev)
    ELSE IF tok = "Timescale" THEN
           (IF ~isLast /\ ~SliceOK(s, idx, TotalBytes(s)) THEN <<"PANIC", "slice of the time scale">> ELSE <<"end", tok>>)
    ELSE IF ~HasGregPos(tok) THEN <<"PANIC", "gregorian_position().unwrap()">>
    ELSE LET adv  == ~isLast \/ ~Numeric(c)
             tok2 == IF adv THEN Advance(tok, c) ELSE tok
             end  == IF adv THEN idx ELSE idx + len
         IN  IF tok2 = "ERR" THEN <<"err", "delimiter">>
             ELSE IF prev > end THEN <<"err", "empty field">>
             ELSE IF ~SliceOK(s, prev, end) THEN <<"PANIC", "slice of a field">>
             ELSE LET sub == CharsBetween(s, 1, 0, prev, end) IN
                    IF ~Lexes(sub) THEN <<"err", "not an integer">>
                    ELSE IF tok = "Subsecond" /\ end - prev > 9 THEN <<"err", "more than nine subsecond digits">>
                    ELSE IF tok = "Subsecond" /\ (9 - (end - prev) < 0) THEN <<"PANIC", "negative exponent">>
                    ELSE Loop(s, i + 1, idx + len, tok2, idx + len)
Run(s0) == Loop(Trim(s0), 1, 0, "Year", 0)

(* ---------------------------------------------------------------- the tokenizer as found (control) *)
(* `for (idx, char) in s.chars().enumerate()`: idx counts characters but slices bytes; is_last compares  *)
(* it with the number of characters; the sub-second exponent is computed without a guard                 *)
RECURSIVE LoopOld(_, _, _, _)
LoopOld(s, i, tok, prev) ==
  IF i > Len(s) THEN <<"end", tok>>
  ELSE LET c == s[i]  idx == i - 1  isLast == (idx = Len(s) - 1) IN
    IF Numeric(c) /\ ~isLast THEN LoopOld(s, i + 1, tok, prev)
    ELSE IF tok = "Timescale" THEN
           (IF ~isLast /\ ~SliceOK(s, idx, TotalBytes(s)) THEN <<"PANIC", "slice of the time scale">> ELSE <<"end", tok>>)
    ELSE IF ~HasGregPos(tok) THEN <<"PANIC", "gregorian_position().unwrap()">>
    ELSE LET adv  == ~isLast \/ ~Numeric(c)
             tok2 == IF adv THEN Advance(tok, c) ELSE tok
             end  == IF adv THEN idx ELSE idx + 1
         IN  IF tok2 = "ERR" THEN <<"err", "delimiter">>
             ELSE IF prev > end THEN <<"err", "empty field">>
             ELSE IF ~SliceOK(s, prev, end) THEN <<"PANIC", "slice of a field">>
             ELSE LET sub == CharsBetween(s, 1, 0, prev, end) IN
                    IF sub = <<>> \/ \E k \in 1..Len(sub) : ~AsciiDigit(sub[k]) THEN <<"err", "not an integer">>
                    ELSE IF tok = "Subsecond" /\ (9 - (end - prev) < 0) THEN <<"PANIC", "negative exponent">>
                    ELSE LoopOld(s, i + 1, tok2, idx + 1)
RunOld(s0) == LoopOld(Trim(s0), 1, "Year", 0)

=============================================================================
