---------------------------- MODULE MC_Tokenizer ----------------------------
(***************************************************************************)
(* L1 for C13 (and the tokenizer half of C10): the implementation-shaped    *)
(* model of Epoch::from_gregorian_str as a machine over CHARACTER CLASSES,  *)
(* explored exhaustively by TLC for every class string within two edits     *)
(* (substitution, insertion, deletion, at any position, with any class) of  *)
(* the grammar's skeletons, and for every class string up to length four.   *)
(*                                                                         *)
(* A class fixes what the tokenizer can observe of a character: its UTF-8   *)
(* length, whether char::is_numeric holds, whether it is an ASCII digit,    *)
(* and which delimiter it is.  The model keeps the two kinds of index the   *)
(* Rust code handles - the byte offset of the current character and the     *)
(* byte offset where the current field began - and checks on every path     *)
(*   - every slice s[a..b] has a <= b <= len and a, b on character          *)
(*     boundaries (a violated slice is a panic in Rust),                    *)
(*   - gregorian_position() is never unwrapped on a token that has none,    *)
(*   - the sub-second scaling 10^(9 - digits) never has a negative exponent *)
(*     and never overflows an i32,                                          *)
(*   - the loop consumes the string (termination is structural).            *)
(* The model of the tokenizer as found (character index used as byte        *)
(* offset, `9 - digits` computed before the guard) is a control that TLC    *)
(* must refute.  Field values are abstracted: a field that lexes is "some   *)
(* value the range check accepts", which is enough for index safety.        *)
(***************************************************************************)
EXTENDS TokClasses

(* Token::advance_with: the next token, or "ERR" *)
Advance(tok, c) ==
  CASE tok = "Year"    -> IF c = "-" THEN "Month" ELSE "ERR"
    [] tok = "Month"   -> IF c = "-" THEN "Day" ELSE "ERR"
    [] tok = "Day"     -> IF c \in {"T", " "} THEN "Hour" ELSE "ERR"
    [] tok = "Hour"    -> IF c = ":" THEN "Minute" ELSE "ERR"
    [] tok = "Minute"  -> IF c = ":" THEN "Second" ELSE "ERR"
    [] tok = "Second"  -> IF c = "." THEN "Subsecond" ELSE IF c \in {" ", "Z"} THEN "Timescale"
                          ELSE IF c \in {"-", "+"} THEN "OffsetHours" ELSE "ERR"
    [] tok = "Subsecond" -> IF c \in {" ", "Z"} THEN "Timescale" ELSE IF c \in {"-", "+"} THEN "OffsetHours" ELSE "ERR"
    [] tok = "OffsetHours" -> IF c = ":" THEN "OffsetMinutes" ELSE "ERR"
    [] tok = "OffsetMinutes" -> IF c \in {" ", "Z"} THEN "Timescale" ELSE "ERR"
    [] OTHER -> "ERR"
HasGregPos(tok) == tok \in {"Year", "Month", "Day", "Hour", "Minute", "Second", "Subsecond", "OffsetHours", "OffsetMinutes"}

Lexes(sub) == sub # <<>> /\ Len(sub) <= 9 /\ \A k \in 1..Len(sub) : AsciiDigit(sub[k])     \* (ten digits may overflow an i32: an error)

(* ---------------------------------------------------------------- the tokenizer as it is now *)
(* idx: byte offset of character i; prev: byte offset where the current field began *)
RECURSIVE Loop(_, _, _, _, _)
Loop(s, i, idx, tok, prev) ==
  IF i > Len(s) THEN <<"end", tok>>
  ELSE LET c == s[i]  len == Bytes(c)  isLast == (idx + len = TotalBytes(s)) IN
    IF Numeric(c) /\ ~isLast THEN Loop(s, i + 1, idx + len, tok, prev)
    ELSE IF tok = "Timescale" THEN
           (IF ~isLast /\ ~SliceOK(s, idx, TotalBytes(s)) THEN <<"PANIC", "slice of the time scale">> ELSE <<"end", tok>>)
    ELSE IF ~HasGregPos(tok) THEN <<"PANIC", "gregorian_position().unwrap()">>
    ELSE LET adv  == ~isLast \/ ~Numeric(c)
             tok2 == IF adv THEN Advance(tok, c) ELSE tok
             end  == IF adv THEN idx ELSE idx + len
         IN  IF tok2 = "ERR" THEN <<"err", "delimiter">>
             ELSE IF prev > end THEN <<"err", "empty field">>
             ELSE IF ~SliceOK(s, prev, end) THEN <<"PANIC", "slice of a field">>
             ELSE LET sub == CharsBetween(s, 1, 0, prev, end) IN
                    IF ~Lexes(sub) THEN <<"err", "not an integer">>
                    ELSE IF tok = "Subsecond" /\ end - prev > 9 THEN <<"err", "more than nine subsecond digits">>
                    ELSE IF tok = "Subsecond" /\ (9 - (end - prev) < 0) THEN <<"PANIC", "negative exponent">>
                    ELSE Loop(s, i + 1, idx + len, tok2, idx + len)
Run(s0) == Loop(Trim(s0), 1, 0, "Year", 0)

(* ---------------------------------------------------------------- the tokenizer as found (control) *)
(* `for (idx, char) in s.chars().enumerate()`: idx counts characters but slices bytes; is_last compares  *)
(* it with the number of characters; the sub-second exponent is computed without a guard                 *)
RECURSIVE LoopOld(_, _, _, _)
LoopOld(s, i, tok, prev) ==
  IF i > Len(s) THEN <<"end", tok>>
  ELSE LET c == s[i]  idx == i - 1  isLast == (idx = Len(s) - 1) IN
    IF Numeric(c) /\ ~isLast THEN LoopOld(s, i + 1, tok, prev)
    ELSE IF tok = "Timescale" THEN
           (IF ~isLast /\ ~SliceOK(s, idx, TotalBytes(s)) THEN <<"PANIC", "slice of the time scale">> ELSE <<"end", tok>>)
    ELSE IF ~HasGregPos(tok) THEN <<"PANIC", "gregorian_position().unwrap()">>
    ELSE LET adv  == ~isLast \/ ~Numeric(c)
             tok2 == IF adv THEN Advance(tok, c) ELSE tok
             end  == IF adv THEN idx ELSE idx + 1
         IN  IF tok2 = "ERR" THEN <<"err", "delimiter">>
             ELSE IF prev > end THEN <<"err", "empty field">>
             ELSE IF ~SliceOK(s, prev, end) THEN <<"PANIC", "slice of a field">>
             ELSE LET sub == CharsBetween(s, 1, 0, prev, end) IN
                    IF sub = <<>> \/ \E k \in 1..Len(sub) : ~AsciiDigit(sub[k]) THEN <<"err", "not an integer">>
                    ELSE IF tok = "Subsecond" /\ (9 - (end - prev) < 0) THEN <<"PANIC", "negative exponent">>
                    ELSE LoopOld(s, i + 1, tok2, idx + 1)
RunOld(s0) == LoopOld(Trim(s0), 1, "Year", 0)

(* ---------------------------------------------------------------- the strings explored *)
D == "d"
Date == <<D, D, D, D, "-", D, D, "-", D, D>>
Time == <<D, D, ":", D, D, ":", D, D>>
Skeletons == {
  Date \o <<"T">> \o Time,                                                     \* 2017-01-14T00:31:55
  Date \o <<" ">> \o Time \o <<" ", "x", "x", "x">>,                           \* ... UTC
  Date \o <<"T">> \o Time \o <<".", D, D, D>> \o <<"Z">>,                      \* fraction, Z
  Date \o <<"T">> \o Time \o <<".", D, D, D, D, D, D, D, D, D>> \o <<" ", "x", "x">>,   \* nine digits, scale
  Date \o <<"T">> \o Time \o <<"+", D, D, ":", D, D>>,                         \* offset
  Date \o <<"T">> \o Time \o <<".", D>> \o <<"-", D, D, ":", D, D, " ", "x", "x", "x">>,
  <<D, "-", D, "-", D, "T", D, ":", D, ":", D>> }                              \* minimal

CONSTANT MaxEdits, ShortLen
VARIABLES s, k
Init == \/ (s \in Skeletons /\ k = 0)
        \/ (s = <<>> /\ k = -1)                               \* the short strings: grown one class at a time
Next == \/ (k >= 0 /\ k < MaxEdits /\ s' \in Edits(s) /\ k' = k + 1)
        \/ (k = -1 /\ Len(s) < ShortLen /\ \E c \in Classes : s' = Append(s, c) /\ k' = -1)
Spec == Init /\ [][Next]_<<s, k>>

NoPanic == Run(s)[1] # "PANIC"
(* every skeleton is tokenized to its end (the model is not vacuously rejecting everything) *)
ASSUME \A sk \in Skeletons : Run(sk)[1] = "end"
(* the control: the tokenizer as found panics on multi-byte characters and on long fractions *)
ASSUME RunOld(<<"e2", "e2", "e2", "e2">>)[1] = "PANIC" \/ \E sk \in Skeletons : \E m \in Edits(sk) : RunOld(m)[1] = "PANIC"
ASSUME RunOld(Date \o <<"T">> \o Time \o <<".", D, D, D, D, D, D, D, D, D, D>>)[1] = "PANIC"
ASSUME Run(Date \o <<"T">> \o Time \o <<".", D, D, D, D, D, D, D, D, D, D>>)[1] = "err"
=============================================================================
