---------------------------- MODULE MC_Tokenizer ----------------------------
(***************************************************************************)
(* L1 for C13 (and the tokenizer half of C10): the implementation-shaped    *)
(* model of Epoch::from_gregorian_str as a machine over CHARACTER CLASSES,  *)
(* explored exhaustively by TLC for every class string within two edits     *)
(* (substitution, insertion, deletion, at any position, with any class) of  *)
(* the grammar's skeletons, and for every class string up to length four.   *)
(*                                                                         *)
(* A class fixes what the tokenizer can observe of a character: its UTF-8   *)
(* length, whether char::is_numeric holds, whether it is an ASCII digit,    *)
(* and which delimiter it is.  The model keeps the two kinds of index the   *)
(* Rust code handles - the byte offset of the current character and the     *)
(* byte offset where the current field began - and checks on every path     *)
(*   - every slice s[a..b] has a <= b <= len and a, b on character          *)
(*     boundaries (a violated slice is a panic in Rust),                    *)
(*   - gregorian_position() is never unwrapped on a token that has none,    *)
(*   - the sub-second scaling 10^(9 - digits) never has a negative exponent *)
(*     and never overflows an i32,                                          *)
(*   - the loop consumes the string (termination is structural).            *)
(* The model of the tokenizer as found (character index used as byte        *)
(* offset, `9 - digits` computed before the guard) is a control that TLC    *)
(* must refute.  Field values are abstracted: a field that lexes is "some   *)
(* value the range check accepts", which is enough for index safety.        *)
(***************************************************************************)
EXTENDS TokenizerModel, Json

(* ---------------------------------------------------------------- the strings explored *)
D == "d"
Date == <<D, D, D, D, "-", D, D, "-", D, D>>
Time == <<D, D, ":", D, D, ":", D, D>>
Skeletons == {
  Date \o <<"T">> \o Time,                                                     \* 2017-01-14T00:31:55
  Date \o <<" ">> \o Time \o <<" ", "x", "x", "x">>,                           \* ... UTC
  Date \o <<"T">> \o Time \o <<".", D, D, D>> \o <<"Z">>,                      \* fraction, Z
  Date \o <<"T">> \o Time \o <<".", D, D, D, D, D, D, D, D, D>> \o <<" ", "x", "x">>,   \* nine digits, scale
  Date \o <<"T">> \o Time \o <<"+", D, D, ":", D, D>>,                         \* offset
  Date \o <<"T">> \o Time \o <<".", D>> \o <<"-", D, D, ":", D, D, " ", "x", "x", "x">>,
  <<D, "-", D, "-", D, "T", D, ":", D, ":", D>> }                              \* minimal

CONSTANT MaxEdits, ShortLen
VARIABLES s, k
Init == \/ (s \in Skeletons /\ k = 0)
        \/ (s = <<>> /\ k = -1)                               \* the short strings: grown one class at a time
Next == \/ (k >= 0 /\ k < MaxEdits /\ s' \in Edits(s) /\ k' = k + 1)
        \/ (k = -1 /\ Len(s) < ShortLen /\ \E c \in Classes : s' = Append(s, c) /\ k' = -1)
Spec == Init /\ [][Next]_<<s, k>>

NoPanic == Run(s)[1] # "PANIC"
(* L2: the explored class strings, printed for the harness, which concretises each one and runs the real parser *)
EmitCls == PrintT(<<"CLS", ToJson(s)>>)
(* every skeleton is tokenized to its end (the model is not vacuously rejecting everything) *)
ASSUME \A sk \in Skeletons : Run(sk)[1] = "end"
(* the control: the tokenizer as found panics on multi-byte characters and on long fractions *)
ASSUME RunOld(<<"e2", "e2", "e2", "e2">>)[1] = "PANIC" \/ \E sk \in Skeletons : \E m \in Edits(sk) : RunOld(m)[1] = "PANIC"
ASSUME RunOld(Date \o <<"T">> \o Time \o <<".", D, D, D, D, D, D, D, D, D, D>>)[1] = "PANIC"
ASSUME Run(Date \o <<"T">> \o Time \o <<".", D, D, D, D, D, D, D, D, D, D>>)[1] = "err"
=============================================================================
