------------------------------- MODULE BigInt -------------------------------
(***************************************************************************)
(* Exact integers of unbounded size, in pure TLA+, for TLC.                *)
(*                                                                         *)
(* TLC's integers are 32-bit; one hifitime century is 3.15576e18 ns and a  *)
(* Duration spans +/- 1.03e23 ns, so the specification, when instantiated  *)
(* at the real constants (trace validation), computes on this carrier.     *)
(*                                                                         *)
(* A magnitude is a sequence of limbs in 0..9999, least significant first, *)
(* with no most-significant zero limb (<<>> is zero).  A signed integer is *)
(* a record [neg |-> BOOLEAN, m |-> magnitude] with neg = FALSE for zero.  *)
(* Both forms are canonical, so TLA+ equality is integer equality.         *)
(***************************************************************************)
EXTENDS Integers, Sequences

B == 10000

IsMag(m) == /\ \A i \in 1..Len(m) : m[i] \in 0..(B-1)
            /\ (m # <<>> => m[Len(m)] # 0)

RECURSIVE Trim(_)
Trim(m) == IF m = <<>> THEN <<>>
           ELSE IF m[Len(m)] = 0 THEN Trim(SubSeq(m, 1, Len(m) - 1)) ELSE m

Limb(m, i) == IF i <= Len(m) THEN m[i] ELSE 0
Max2(a, b) == IF a >= b THEN a ELSE b

(* magnitude of a small non-negative TLC integer (< 2^31) *)
RECURSIVE MagOfNat(_)
MagOfNat(n) == IF n = 0 THEN <<>> ELSE <<n % B>> \o MagOfNat(n \div B)

(* value of a magnitude as a TLC integer; caller guarantees it fits *)
RECURSIVE NatOfMagFrom(_, _)
NatOfMagFrom(m, i) == IF i > Len(m) THEN 0 ELSE m[i] + B * NatOfMagFrom(m, i + 1)
NatOfMag(m) == NatOfMagFrom(m, 1)

RECURSIVE AddFrom(_, _, _, _)
AddFrom(a, b, i, c) ==
  IF i > Len(a) /\ i > Len(b) THEN (IF c = 0 THEN <<>> ELSE <<c>>)
  ELSE LET x == Limb(a, i) + Limb(b, i) + c
       IN  <<x % B>> \o AddFrom(a, b, i + 1, x \div B)
AddMag(a, b) == AddFrom(a, b, 1, 0)

(* -1, 0, 1 *)
RECURSIVE CmpFrom(_, _, _)
CmpFrom(a, b, i) == IF i = 0 THEN 0
                    ELSE IF a[i] < b[i] THEN -1
                    ELSE IF a[i] > b[i] THEN 1
                    ELSE CmpFrom(a, b, i - 1)
CmpMag(a, b) == IF Len(a) < Len(b) THEN -1
                ELSE IF Len(a) > Len(b) THEN 1
                ELSE CmpFrom(a, b, Len(a))

(* a - b for a >= b *)
RECURSIVE SubFrom(_, _, _, _)
SubFrom(a, b, i, br) ==
  IF i > Len(a) THEN <<>>
  ELSE LET x == a[i] - Limb(b, i) - br
       IN  IF x < 0 THEN <<x + B>> \o SubFrom(a, b, i + 1, 1)
                    ELSE <<x>> \o SubFrom(a, b, i + 1, 0)
SubMag(a, b) == Trim(SubFrom(a, b, 1, 0))

(* a * k for 0 <= k <= 200000 *)
RECURSIVE MulSmallFrom(_, _, _, _)
MulSmallFrom(a, k, i, c) ==
  IF i > Len(a) THEN MagOfNat(c)
  ELSE LET x == a[i] * k + c
       IN  <<x % B>> \o MulSmallFrom(a, k, i + 1, x \div B)
MulSmallMag(a, k) == IF k = 0 \/ a = <<>> THEN <<>> ELSE MulSmallFrom(a, k, 1, 0)

(* a * B^n *)
ShiftMag(a, n) == IF a = <<>> THEN <<>> ELSE [i \in 1..n |-> 0] \o a

RECURSIVE MulFrom(_, _, _)
MulFrom(a, b, i) ==
  IF i > Len(b) THEN <<>>
  ELSE AddMag(ShiftMag(MulSmallMag(a, b[i]), i - 1), MulFrom(a, b, i + 1))
MulMag(a, b) == IF a = <<>> \/ b = <<>> THEN <<>> ELSE MulFrom(a, b, 1)

(* <<quotient, remainder>> of a by a small divisor 1 <= d <= 214748 *)
RECURSIVE DivSmallFrom(_, _, _, _)
DivSmallFrom(a, d, i, r) ==
  \* processes limbs i, i-1, ..., 1; returns <<quotient limbs (little endian), remainder>>
  IF i = 0 THEN <<<<>>, r>>
  ELSE LET x == r * B + a[i]
           rest == DivSmallFrom(a, d, i - 1, x % d)
       IN  <<rest[1] \o <<x \div d>>, rest[2]>>
DivSmallMag(a, d) == LET qr == DivSmallFrom(a, d, Len(a), 0)
                     IN  <<Trim(qr[1]), qr[2]>>

(* greatest q in lo..hi with b*q <= r (b*lo <= r is given) *)
RECURSIVE QDigit(_, _, _, _)
QDigit(r, b, lo, hi) ==
  IF lo = hi THEN lo
  ELSE LET mid == (lo + hi + 1) \div 2
       IN  IF CmpMag(MulSmallMag(b, mid), r) <= 0 THEN QDigit(r, b, mid, hi)
                                               ELSE QDigit(r, b, lo, mid - 1)

(* long division, b # <<>>: <<quotient, remainder>> *)
RECURSIVE LongDivFrom(_, _, _, _)
LongDivFrom(a, b, i, r) ==
  IF i = 0 THEN <<<<>>, r>>
  ELSE LET x    == Trim(<<a[i]>> \o r)          \* r * B + a[i]
           q    == IF CmpMag(x, b) < 0 THEN 0 ELSE QDigit(x, b, 1, B - 1)
           rest == LongDivFrom(a, b, i - 1, SubMag(x, MulSmallMag(b, q)))
       IN  <<rest[1] \o <<q>>, rest[2]>>
DivModMag(a, b) ==
  IF CmpMag(a, b) < 0 THEN <<<<>>, a>>
  ELSE IF Len(b) = 1 THEN LET qr == DivSmallMag(a, b[1]) IN <<qr[1], MagOfNat(qr[2])>>
  ELSE LET qr == LongDivFrom(a, b, Len(a), <<>>) IN <<Trim(qr[1]), qr[2]>>

-----------------------------------------------------------------------------
(* signed integers *)

Mk(neg, m) == [neg |-> (neg /\ m # <<>>), m |-> m]
Zero == [neg |-> FALSE, m |-> <<>>]
IsBig(x) == /\ DOMAIN x = {"neg", "m"} /\ x.neg \in BOOLEAN /\ IsMag(x.m)
            /\ (x.m = <<>> => ~x.neg)

FromInt(n) == IF n < 0 THEN Mk(TRUE, MagOfNat(-n)) ELSE Mk(FALSE, MagOfNat(n))
ToInt(x)   == IF x.neg THEN -NatOfMag(x.m) ELSE NatOfMag(x.m)

Neg(x)  == Mk(~x.neg, x.m)
Abs(x)  == Mk(FALSE, x.m)
Sign(x) == IF x.m = <<>> THEN 0 ELSE IF x.neg THEN -1 ELSE 1
IsZero(x) == x.m = <<>>

Cmp(x, y) ==
  IF x.neg /\ ~y.neg THEN -1
  ELSE IF ~x.neg /\ y.neg THEN 1
  ELSE IF x.neg THEN CmpMag(y.m, x.m) ELSE CmpMag(x.m, y.m)
Lt(x, y) == Cmp(x, y) < 0
Le(x, y) == Cmp(x, y) <= 0

Add(x, y) ==
  IF x.neg = y.neg THEN Mk(x.neg, AddMag(x.m, y.m))
  ELSE LET c == CmpMag(x.m, y.m)
       IN  IF c = 0 THEN Zero
           ELSE IF c > 0 THEN Mk(x.neg, SubMag(x.m, y.m))
           ELSE Mk(y.neg, SubMag(y.m, x.m))
Sub(x, y) == Add(x, Neg(y))
Mul(x, y) == Mk(x.neg # y.neg, MulMag(x.m, y.m))
MulInt(x, k) == IF k < 0 THEN Mk(~x.neg, MulSmallMag(x.m, -k)) ELSE Mk(x.neg, MulSmallMag(x.m, k))

(* truncating division (toward zero) and its remainder (sign of dividend) *)
QuotT(x, y) == Mk(x.neg # y.neg, DivModMag(x.m, y.m)[1])
RemT(x, y)  == Mk(x.neg, DivModMag(x.m, y.m)[2])

(* floored division for a positive divisor, remainder in 0..y-1 *)
DivF(x, y) ==
  LET qr == DivModMag(x.m, y.m)
  IN  IF ~x.neg THEN Mk(FALSE, qr[1])
      ELSE IF qr[2] = <<>> THEN Mk(TRUE, qr[1])
      ELSE Mk(TRUE, AddMag(qr[1], <<1>>))
ModF(x, y) ==
  LET qr == DivModMag(x.m, y.m)
  IN  IF ~x.neg \/ qr[2] = <<>> THEN Mk(FALSE, qr[2])
      ELSE Mk(FALSE, SubMag(y.m, qr[2]))

Min(x, y) == IF Le(x, y) THEN x ELSE y
Max(x, y) == IF Le(x, y) THEN y ELSE x

(* 10^k as a magnitude, k >= 0 *)
Pow10Mag(k) == ShiftMag(<<CASE k % 4 = 0 -> 1 [] k % 4 = 1 -> 10 [] k % 4 = 2 -> 100 [] OTHER -> 1000>>, k \div 4)
Pow10(k) == Mk(FALSE, Pow10Mag(k))

(* 2^k as a magnitude, k >= 0 *)
RECURSIVE Pow2Mag(_)
Pow2Mag(k) == IF k = 0 THEN <<1>>
              ELSE IF k >= 13 THEN MulSmallMag(Pow2Mag(k - 13), 8192)
              ELSE MulSmallMag(Pow2Mag(k - 1), 2)
Pow2(k) == Mk(FALSE, Pow2Mag(k))

(* decimal digits of a magnitude, most significant first, as a sequence of 0..9; <<0>> for zero *)
Limb4(x) == <<x \div 1000, (x \div 100) % 10, (x \div 10) % 10, x % 10>>
RECURSIVE DigitsFrom(_, _)
DigitsFrom(m, i) == IF i = 0 THEN <<>> ELSE Limb4(m[i]) \o DigitsFrom(m, i - 1)
RECURSIVE StripZeros(_)
StripZeros(s) == IF Len(s) > 1 /\ s[1] = 0 THEN StripZeros(Tail(s)) ELSE s
DigitsOfMag(m) == IF m = <<>> THEN <<0>> ELSE StripZeros(DigitsFrom(m, Len(m)))

(* magnitude from decimal digits, most significant first *)
RECURSIVE MagOfDigitsAcc(_, _, _)
MagOfDigitsAcc(ds, i, acc) ==
  IF i > Len(ds) THEN acc
  ELSE MagOfDigitsAcc(ds, i + 1, AddMag(MulSmallMag(acc, 10), MagOfNat(ds[i])))
MagOfDigits(ds) == MagOfDigitsAcc(ds, 1, <<>>)
=============================================================================
