------------------------------ MODULE Landmarks ------------------------------
(***************************************************************************)
(* The boundary alphabet of the real value spaces, defined once, in the     *)
(* specification, at the real constants.  TLC evaluates it and prints JSON; *)
(* the harness builds all of its grids (pairs, triples, chains) from it, so *)
(* "what is a boundary" has one source: the case distinctions of the        *)
(* abstract type (century boundaries, the bounds, zero, the 64-bit limits,  *)
(* each unit's factor).                                                     *)
(***************************************************************************)
EXTENDS Integers, Sequences, FiniteSets, TLC, Json, IOUtils, SequencesExt
B == INSTANCE BigInt

NPC    == B!Mul(B!FromInt(315576), B!Pow10(13))
U64MAX == B!Sub(B!Pow2(64), B!FromInt(1))
I64MAX == B!Sub(B!Pow2(63), B!FromInt(1))
I64MIN == B!Neg(B!Pow2(63))
I128MAX == B!Sub(B!Pow2(127), B!FromInt(1))
I128MIN == B!Neg(B!Pow2(127))
MinV   == B!MulInt(NPC, -32768)
MaxV   == B!MulInt(NPC, 32768)
UnitNs == << B!FromInt(1), B!Pow10(3), B!Pow10(6), B!Pow10(9), B!MulInt(B!Pow10(9), 60),
             B!MulInt(B!Pow10(9), 3600), B!MulInt(B!Pow10(9), 86400),
             B!MulInt(B!Pow10(9), 604800), NPC >>

Around(x, ds) == { B!Add(x, B!FromInt(k)) : k \in ds }
Near == {-2, -1, 0, 1, 2}

(* century field of the constructor *)
Cents == {-32768, -32767, -32766, -4, -3, -2, -1, 0, 1, 2, 3, 32765, 32766, 32767}
(* nanosecond field of the constructor: any u64 *)
NanoCore == UNION { Around(B!MulInt(NPC, k), Near) : k \in 0..5 }
NanoSet == { n \in ( NanoCore
                     \cup Around(B!DivF(NPC, B!FromInt(2)), {-1, 0, 1})
                     \cup Around(U64MAX, {-1, 0})
                     \cup Around(I64MAX, {-1, 0, 1})
                     \cup { UnitNs[k] : k \in 1..8 }
                     \cup Around(UnitNs[7], {-1, 1})
                     \cup { B!FromInt(999999999), B!FromInt(1000000001), B!MulInt(UnitNs[7], 36524) } )
               : B!Le(B!Zero, n) /\ B!Le(n, U64MAX) }

(* i64 factors / divisors / unit counts *)
I64Set == { q \in ( Around(B!Zero, {-10, -7, -3, -2, -1, 0, 1, 2, 3, 7, 10, 1000, -1000, 32767, 32768, -32768, -32769, 65536, -65536})
                    \cup Around(I64MAX, {-1, 0}) \cup Around(I64MIN, {0, 1})
                    \cup Around(B!Pow2(31), Near) \cup Around(B!Neg(B!Pow2(31)), Near)
                    \cup Around(B!Pow2(32), {-1, 0, 1}) \cup Around(B!Pow2(53), {-1, 0, 1})
                    \cup Around(B!Neg(B!Pow2(53)), {-1, 0, 1})
                    \cup Around(B!Pow2(62), {-1, 0, 1}) \cup Around(B!Neg(B!Pow2(62)), {-1, 0, 1})
                    \cup Around(NPC, Near) \cup Around(B!Neg(NPC), Near)
                    \cup Around(B!MulInt(NPC, 2), Near) \cup Around(B!MulInt(NPC, -2), Near)
                    \* the count of each unit at which the product reaches the bounds of a Duration
                    \cup UNION { Around(B!DivF(MaxV, UnitNs[u]), {-1, 0, 1, 2}) : u \in 1..9 }
                    \cup UNION { Around(B!Neg(B!DivF(MaxV, UnitNs[u])), {-2, -1, 0, 1}) : u \in 1..9 }
                    \cup { B!Pow10(9), B!Pow10(18), B!Neg(B!Pow10(18)), B!FromInt(86400), B!FromInt(36525),
                           B!FromInt(-36525), B!DivF(I64MAX, B!FromInt(86400)), B!DivF(I64MAX, B!Pow10(9)),
                           B!Add(B!DivF(I64MAX, B!Pow10(9)), B!FromInt(1)),
                           B!DivF(I64MIN, B!Pow10(9)), B!FromInt(1196851200), B!FromInt(-1196851200),
                           B!FromInt(1196851201), B!FromInt(-1196851201) } )
              : B!Le(I64MIN, q) /\ B!Le(q, I64MAX) }

(* i128 totals for from_total_nanoseconds *)
I128Set == { x \in ( UNION { Around(B!MulInt(NPC, k), Near) : k \in {-32769, -32768, -32767, -3, -2, -1, 0, 1, 2, 3, 32767, 32768, 32769} }
                     \cup Around(I64MAX, Near) \cup Around(I64MIN, Near)
                     \cup Around(I128MAX, {-1, 0}) \cup Around(I128MIN, {0, 1})
                     \cup Around(B!Pow2(64), Near) \cup Around(B!Neg(B!Pow2(64)), Near)
                     \cup { B!Pow2(100), B!Neg(B!Pow2(100)), B!Pow2(80), B!Neg(B!Pow2(80)) } )
               : B!Le(I128MIN, x) /\ B!Le(x, I128MAX) }

(* the leap second table and the zero instants of the scales as derived in Real.tla from calendar dates: *)
(* the literal copies that Apalache needs (spec/apalache/APA_Scales.tla) are compared with these          *)
R == INSTANCE Real
All == [ leap  |-> [i \in 1..Len(R!LeapR) |-> <<R!LeapR[i][1].m, R!LeapR[i][2].m>>],
         refs  |-> [i \in 1..9 |-> R!RefR[i - 1]],
         cents |-> SetToSeq(Cents),
         nanos |-> SetToSeq({ n.m : n \in NanoSet }),
         i64   |-> SetToSeq(I64Set),
         i128  |-> SetToSeq(I128Set) ]

ASSUME JsonSerialize(IOEnv.LANDMARKS_OUT, All)
ASSUME PrintT(<<"LANDMARKS", Cardinality(Cents), Cardinality(NanoSet), Cardinality(I64Set), Cardinality(I128Set)>>)

VARIABLE x
Init == x = 0
Next == UNCHANGED x
=============================================================================
