----------------------------- MODULE MC_Weekday -----------------------------
(* Exhaustive check of the weekday arithmetic (L1 for C16): all 7 x 256 sums and differences, all conversions from u8 and i8, all 49 pairs. *)
EXTENDS Integers, TLC
VARIABLES w, wout
W == INSTANCE WeekdayMachine

Init == W!WInit
Next == \/ \E u \in 0..255 : W!WFromU8(u) \/ W!WAddU8(u) \/ W!WSubU8(u)
        \/ \E i \in -128..127 : W!WFromI8(i)
        \/ \E b \in 0..6 : W!WAddW(b) \/ W!WDiff(b)
Spec == Init /\ [][Next]_<<w, wout>>

TypeOK == w \in 0..6 /\ (wout[1] = "days" => wout[2] \in 0..6)
ASSUME \A a \in 0..6, u \in 0..255 : (((a + u) % 7) - u) % 7 = a /\ (((a - u) % 7) + u) % 7 = a
ASSUME \A a \in 0..6, u \in 0..248 : (a + u) % 7 = (a + u + 7) % 7
ASSUME \A a, b \in 0..6 : (a + ((b - a) % 7)) % 7 = b
ASSUME \A i \in -128..127 : (i % 7) \in 0..6 /\ ((i % 7) - i) % 7 = 0
=============================================================================
