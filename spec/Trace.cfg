SPECIFICATION TraceSpec
INVARIANT TraceInv
POSTCONDITION TraceAccepted
CHECK_DEADLOCK FALSE
