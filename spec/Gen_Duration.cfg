SPECIFICATION Spec
CONSTANTS
  NPCc = 12
  CNEGc = 3
  CMAXc = 2
  NMAXc = 40
  QMAXc = 7
  Depth = 7
INVARIANT Emit
CHECK_DEADLOCK FALSE
