-------------------------------- MODULE Real --------------------------------
(***************************************************************************)
(* The real constants of hifitime, on the BigInt carrier, and the           *)
(* instantiation of the carrier-parametric specification modules at them.   *)
(* This is the instance that judges recorded calls of the implementation.   *)
(***************************************************************************)
EXTENDS Integers, Sequences
B == INSTANCE BigInt

NPCr    == B!Mul(B!FromInt(315576), B!Pow10(13))     \* 36525 * 86400 * 10^9
Ur      == << B!FromInt(1), B!Pow10(3), B!Pow10(6), B!Pow10(9), B!MulInt(B!Pow10(9), 60),
              B!MulInt(B!Pow10(9), 3600), B!MulInt(B!Pow10(9), 86400),
              B!MulInt(B!Pow10(9), 604800), NPCr >>
I64MAX  == B!Sub(B!Pow2(63), B!FromInt(1))
I64MIN  == B!Neg(B!Pow2(63))
U64MAX  == B!Sub(B!Pow2(64), B!FromInt(1))

(* a logged magnitude (JSON array of limbs) as a carrier value *)
Mg(m) == [neg |-> FALSE, m |-> m]
(* a logged signed integer {"neg":..,"m":[..]} is already a carrier value *)
Big(x) == [neg |-> x.neg, m |-> x.m]
=============================================================================
