-------------------------------- MODULE Real --------------------------------
(***************************************************************************)
(* The real constants of hifitime, on the BigInt carrier, and the           *)
(* instantiation of the carrier-parametric specification modules at them.   *)
(* This is the instance that judges recorded calls of the implementation.   *)
(***************************************************************************)
EXTENDS Integers, Sequences
B == INSTANCE BigInt

NPCr    == B!Mul(B!FromInt(315576), B!Pow10(13))     \* 36525 * 86400 * 10^9
Ur      == << B!FromInt(1), B!Pow10(3), B!Pow10(6), B!Pow10(9), B!MulInt(B!Pow10(9), 60),
              B!MulInt(B!Pow10(9), 3600), B!MulInt(B!Pow10(9), 86400),
              B!MulInt(B!Pow10(9), 604800), NPCr >>
I64MAX  == B!Sub(B!Pow2(63), B!FromInt(1))
I64MIN  == B!Neg(B!Pow2(63))
U64MAX  == B!Sub(B!Pow2(64), B!FromInt(1))

-----------------------------------------------------------------------------
(* time scales: every constant is DERIVED from calendar dates and the documented second counts, *)
(* not transcribed from the Rust tables (C05: "duplicated constants")                           *)
Cal == INSTANCE Calendar
Sec(n)    == B!MulInt(B!Pow10(9), n)                 \* n seconds, |n| <= 200000
Msec(n)   == B!MulInt(B!Pow10(6), n)
DaysNs(n) == B!Mul(B!FromInt(n), Ur[7])              \* n days

RefR == [ts \in 0..8 |->
          CASE ts = 1           -> B!Neg(Msec(32184))                                   \* TT - TAI = 32.184 s
            [] ts \in {5, 8}    -> B!Add(DaysNs(Cal!N(1980, 1, 6)), Sec(19))             \* GPST, QZSST
            [] ts = 6           -> B!Add(DaysNs(Cal!N(1999, 8, 22)), Sec(19))            \* GST
            [] ts = 7           -> B!Add(DaysNs(Cal!N(2006, 1, 1)), Sec(33))             \* BDT
            [] OTHER            -> B!Zero]
(* J2000 = 2000-01-01 12:00:00: zero of ET and TDB, in the scale itself *)
J2000Ns == B!Add(DaysNs(Cal!N(2000, 1, 1)), Sec(43200))

(* the IERS record: TAI-UTC became 10 s on 1972-01-01 and grew by one second on each of these dates *)
LeapDates == << <<1972, 1>>, <<1972, 7>>, <<1973, 1>>, <<1974, 1>>, <<1975, 1>>, <<1976, 1>>, <<1977, 1>>,
                <<1978, 1>>, <<1979, 1>>, <<1980, 1>>, <<1981, 7>>, <<1982, 7>>, <<1983, 7>>, <<1985, 7>>,
                <<1988, 1>>, <<1990, 1>>, <<1991, 1>>, <<1992, 7>>, <<1993, 7>>, <<1994, 7>>, <<1996, 1>>,
                <<1997, 7>>, <<1999, 1>>, <<2006, 1>>, <<2009, 1>>, <<2012, 7>>, <<2015, 7>>, <<2017, 1>> >>
LeapR == [i \in 1..Len(LeapDates) |-> <<DaysNs(Cal!N(LeapDates[i][1], LeapDates[i][2], 1)), Sec(9 + i)>>]

GregDayR == [ts \in 0..8 |->
              CASE ts \in {5, 8} -> Cal!N(1980, 1, 6) [] ts = 6 -> Cal!N(1999, 8, 22) [] ts = 7 -> Cal!N(2006, 1, 1)
                [] ts \in {2, 3} -> Cal!N(2000, 1, 1) [] OTHER -> 0]
GregTodR == [ts \in 0..8 |-> IF ts \in {2, 3} THEN Sec(43200) ELSE B!Zero]

(* a logged IEEE-754 double {"k":"fin","neg":..,"m":[limbs of the odd mantissa],"e":exponent}: value = +/- m * 2^e *)
F64IsInt(x) == x.k = "fin" /\ (x.e >= 0 \/ x.m = <<>>)
F64Int(x)   == B!Mk(x.neg, B!MulMag(x.m, B!Pow2Mag(IF x.e >= 0 THEN x.e ELSE 0)))

(* a logged magnitude (JSON array of limbs) as a carrier value *)
Mg(m) == [neg |-> FALSE, m |-> m]
(* a logged signed integer {"neg":..,"m":[..]} is already a carrier value *)
Big(x) == [neg |-> x.neg, m |-> x.m]
=============================================================================
