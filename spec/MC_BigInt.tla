----------------------------- MODULE MC_BigInt -----------------------------
(* Self-test of the BigInt carrier: agreement with TLC's native integers on *)
(* a boundary-dense set, and algebraic identities on multi-limb values.     *)
EXTENDS Integers, Sequences, TLC
B == INSTANCE BigInt

Small == {0, 1, 2, 7, 9, 10, 99, 100, 9999, 10000, 10001, 19999, 20000, 46340,
          99999, 100000, 12345678, 99999999, 100000000, 100000001, 214748,
          2147483647, 1000000000, 999999999}
Signed == Small \cup {-x : x \in Small}
Fits(x) == x \in -2147483647..2147483647

ASSUME \A x \in Signed : B!ToInt(B!FromInt(x)) = x /\ B!IsBig(B!FromInt(x))
ASSUME \A x, y \in Signed :
          /\ ((x < 1000000000 /\ x > -1000000000 /\ y < 1000000000 /\ y > -1000000000)
                 => B!Add(B!FromInt(x), B!FromInt(y)) = B!FromInt(x + y))
          /\ ((x < 1000000000 /\ x > -1000000000 /\ y < 1000000000 /\ y > -1000000000)
                 => B!Sub(B!FromInt(x), B!FromInt(y)) = B!FromInt(x - y))
          /\ B!Cmp(B!FromInt(x), B!FromInt(y)) = (IF x < y THEN -1 ELSE IF x > y THEN 1 ELSE 0)
ASSUME \A x, y \in {z \in Signed : z \in -46340..46340} :
          B!Mul(B!FromInt(x), B!FromInt(y)) = B!FromInt(x * y)
ASSUME \A x \in Signed, y \in {z \in Small : z > 0} :
          /\ B!DivF(B!FromInt(x), B!FromInt(y)) = B!FromInt(x \div y)
          /\ B!ModF(B!FromInt(x), B!FromInt(y)) = B!FromInt(x % y)
          /\ B!Add(B!Mul(B!QuotT(B!FromInt(x), B!FromInt(y)), B!FromInt(y)), B!RemT(B!FromInt(x), B!FromInt(y))) = B!FromInt(x)
          /\ B!Cmp(B!Abs(B!RemT(B!FromInt(x), B!FromInt(y))), B!FromInt(y)) < 0

NPC  == B!Mul(B!FromInt(315576), B!Pow10(13))
I128 == B!Sub(B!Pow2(127), B!FromInt(1))
Bigs == {NPC, I128, B!Pow2(64), B!Sub(B!Pow2(63), B!FromInt(1)), B!Mul(NPC, B!FromInt(32768)),
         B!Pow10(20), B!Add(B!Pow10(20), B!FromInt(1)), B!Sub(B!Pow10(16), B!FromInt(1)),
         B!FromInt(86400), B!Mul(B!FromInt(86400), B!Pow10(9)), B!FromInt(3), B!FromInt(9999), B!FromInt(10000)}
SBigs == Bigs \cup {B!Neg(x) : x \in Bigs}

ASSUME \A x \in SBigs : B!IsBig(x)
ASSUME \A x, y \in SBigs :
          /\ B!Sub(B!Add(x, y), y) = x
          /\ B!Add(x, y) = B!Add(y, x)
          /\ B!Mul(x, y) = B!Mul(y, x)
          /\ B!QuotT(B!Mul(x, y), y) = x
          /\ B!RemT(B!Mul(x, y), y) = B!Zero
          /\ B!IsBig(B!Mul(x, y)) /\ B!IsBig(B!Add(x, y))
          /\ (B!Lt(x, y) <=> B!Sign(B!Sub(x, y)) < 0)
ASSUME \A x \in SBigs, y \in Bigs, r \in Bigs :
          B!Lt(r, y) => /\ B!DivF(B!Add(B!Mul(x, y), r), y) = x
                        /\ B!ModF(B!Add(B!Mul(x, y), r), y) = r
ASSUME B!DigitsOfMag(NPC.m) = <<3,1,5,5,7,6,0,0,0,0,0,0,0,0,0,0,0,0,0>>
ASSUME B!MagOfDigits(<<3,1,5,5,7,6,0,0,0,0,0,0,0,0,0,0,0,0,0>>) = NPC.m
ASSUME B!DigitsOfMag(I128.m) = <<1,7,0,1,4,1,1,8,3,4,6,0,4,6,9,2,3,1,7,3,1,6,8,7,3,0,3,7,1,5,8,8,4,1,0,5,7,2,7>>
ASSUME B!MulInt(NPC, -32768) = B!Neg(B!Mul(NPC, B!FromInt(32768)))

VARIABLE x
Init == x = 0
Next == UNCHANGED x
=============================================================================
