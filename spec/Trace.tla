------------------------------- MODULE Trace -------------------------------
(***************************************************************************)
(* Trace validation (L3): is a recorded execution of the Rust code a        *)
(* behaviour of the specification?                                          *)
(*                                                                         *)
(* The harness (harness/src) drives the real hifitime API as a register     *)
(* machine and writes one JSON line per public call, after the call         *)
(* returned (the linearization point of a sequential library; the panic     *)
(* path is recorded too): operation name, arguments, full projected result. *)
(* Each trace action below is                                               *)
(*     IsOp(name) /\ <the specification's action, arguments bound to the    *)
(*                    logged ones> /\ <logged result = specified result>    *)
(* and is therefore enabled only if the recorded call is explained by the   *)
(* specification instantiated at the REAL constants (BigInt carrier).       *)
(* Acceptance: every line consumed (POSTCONDITION on the diameter).         *)
(***************************************************************************)
EXTENDS Json, IOUtils, RealSpec

Rec == ndJsonDeserialize(IOEnv.TRACE)
Start == IF "TRACE_START" \in DOMAIN IOEnv THEN atoi(IOEnv.TRACE_START) ELSE 1

VARIABLES l,        \* next line of the trace
          sw        \* previous item of a sorted sweep (monotonicity along recorded sequences)

vars == <<l, d, out, e, eout, sw, ser, sout, w, wout>>

-----------------------------------------------------------------------------
E == Rec[l]
IsOp(o)      == l <= Len(Rec) /\ E.op = o /\ l' = l + 1
IsOpIn(S)    == l <= Len(Rec) /\ E.op \in S /\ l' = l + 1
Has(r, f)    == f \in DOMAIN r

(* logged durations are raw to_parts() pairs *)
DV(p)        == M!Val(p.c, Mg(p.n))
IsDur(r)     == Has(r, "c") /\ Has(r, "n")
DurIs(r, v)  == IsDur(r) /\ M!Parts(v) = <<r.c, Mg(r.n)>>
BigIs(r, v)  == Has(r, "m") /\ Big(r) = v

-----------------------------------------------------------------------------
(* Duration machine: C01, C02, C03, C11 (decomposition), C14 *)

TrLoad      == IsOp("load")       /\ M!MLoad(E.c, Mg(E.n))          /\ DurIs(E.res, d')
TrFromTotal == IsOp("from_total") /\ M!MFromTotal(Big(E.x))          /\ DurIs(E.res, d')
(* q * Unit::X, Unit::X * q, q.days() ...: an i64 count of a unit *)
TrFromUnit  == IsOpIn({"unit_mul", "mul_unit", "unit_trait"})
                                  /\ M!MFromUnit(Big(E.q), E.u)      /\ DurIs(E.res, d')
TrAdd       == IsOpIn({"add", "add_assign"}) /\ M!MAdd(DV(E.b))      /\ DurIs(E.res, d')
TrSub       == IsOpIn({"sub", "sub_assign"}) /\ M!MSub(DV(E.b))      /\ DurIs(E.res, d')
TrAddUnit   == IsOpIn({"add_unit", "add_assign_unit"}) /\ M!MAdd(Ur[E.u]) /\ DurIs(E.res, d')
TrSubUnit   == IsOpIn({"sub_unit", "sub_assign_unit"}) /\ M!MSub(Ur[E.u]) /\ DurIs(E.res, d')
TrUnitPm    == IsOpIn({"unit_add_unit", "unit_sub_unit"}) /\
                 d' = (IF E.op = "unit_add_unit" THEN M!DAdd(Ur[E.a], Ur[E.b]) ELSE M!DSub(Ur[E.a], Ur[E.b]))
                 /\ out' = <<"dur", d'>> /\ DurIs(E.res, d')
(* Duration::from_tz_offset(sign, hours, minutes): hours * 1 h + minutes * 1 min, negated for a negative sign *)
TrFromTz    == IsOp("from_tz") /\
                 LET mag == M!DAdd(M!FromUnit(Big(E.h), 6), M!FromUnit(Big(E.mi), 5)) IN
                   d' = (IF E.sign < 0 THEN M!DNeg(mag) ELSE mag) /\ out' = <<"dur", d'>> /\ DurIs(E.res, d')
TrNeg       == IsOp("neg")        /\ M!MNeg                          /\ DurIs(E.res, d')
TrAbs       == IsOp("abs")        /\ M!MAbs                          /\ DurIs(E.res, d')
TrMulI      == IsOpIn({"mul_i64", "i64_mul"}) /\ M!MMulI(Big(E.q))   /\ DurIs(E.res, d')
TrDivI      == IsOp("div_i64")    /\ M!MDivI(Big(E.q))               /\ DurIs(E.res, d')
TrFloor     == IsOp("floor")      /\ M!MFloor(DV(E.s))               /\ DurIs(E.res, d')
TrCeil      == IsOp("ceil")       /\ M!MCeil(DV(E.s))                /\ DurIs(E.res, d')
TrRound     == IsOp("round")      /\ M!MRound(DV(E.s))               /\ DurIs(E.res, d')

(* observers *)
TrParts     == IsOp("parts") /\ M!MParts /\ IsDur(E.res) /\ out'[2] = <<E.res.c, Mg(E.res.n)>>
TrTotal     == IsOp("total") /\ M!MTotal /\ BigIs(E.res, out'[2])
(* signum() and the sign of decompose(): -1 for negative durations, 0 for zero; the tests pin 0  *)
(* for positive durations of less than a century, so 0 and 1 are both admitted for positives.  *)
SignOK(s, v) == IF M!DSignum(v) < 0 THEN s = -1 ELSE IF M!DSignum(v) = 0 THEN s = 0 ELSE s \in {0, 1}
TrSignum    == IsOp("signum") /\ UNCHANGED <<d, out>> /\ SignOK(E.res, d)
                 /\ E.neg = (M!DSignum(d) < 0)

(* from_truncated_nanoseconds(i64) *)
TrFromTrunc == IsOp("from_trunc") /\ M!MFromTotal(Big(E.x)) /\ DurIs(E.res, d')
(* 64-bit accessors (Appendix A.1): never a different number; Ok(v) within +/- 2 centuries;  *)
(* Err when v does not fit an i64; either in between.                                        *)
Within2C(v) == B!Le(B!Abs(v), B!MulInt(NPCr, 2))
Fits64(v)   == B!Le(I64MIN, v) /\ B!Le(v, I64MAX)
TrTryTrunc  == IsOp("try_trunc") /\ UNCHANGED <<d, out>>
                 /\ \/ Has(E.res, "ok")  /\ Big(E.res.ok) = d /\ Fits64(d)
                    \/ Has(E.res, "err") /\ ~Within2C(d)
TrTrunc     == IsOp("trunc") /\ UNCHANGED <<d, out>> /\ Has(E.res, "m")
                 /\ \/ Big(E.res) = d /\ Fits64(d)
                    \/ ~Within2C(d) /\ Big(E.res) = (IF B!Lt(d, B!Zero) THEN I64MIN ELSE I64MAX)

(* comparison of the register with an operand: every operator at once *)
TrCmp == IsOp("cmp") /\ M!MCmp(DV(E.b)) /\
         LET c == out'[2]  q == out'[3]  r == E.res  b == DV(E.b) IN
           /\ r.cmp = c /\ r.pcmp = c
           /\ r.lt = (c < 0) /\ r.le = (c <= 0) /\ r.gt = (c > 0) /\ r.ge = (c >= 0)
           /\ r.eq = q /\ r.ne = ~q
           /\ DurIs(r.min, M!DMin(d, b)) /\ DurIs(r.max, M!DMax(d, b))
(* comparison with a Unit *)
TrCmpUnit == IsOp("cmp_unit") /\ M!MCmp(Ur[E.u]) /\
         LET c == out'[2]  q == out'[3]  r == E.res IN
           /\ r.pcmp = c /\ r.lt = (c < 0) /\ r.gt = (c > 0) /\ r.eq = q
(* slice::sort: the output is the input ordered by value *)
IsSortedBy(xs) == \A i \in 1..(Len(xs) - 1) : B!Le(DV(xs[i]), DV(xs[i + 1]))
SameBag(xs, ys) == /\ Len(xs) = Len(ys)
                   /\ \A i \in 1..Len(xs) :
                        Cardinality({j \in 1..Len(xs) : xs[j] = xs[i]}) = Cardinality({j \in 1..Len(ys) : ys[j] = xs[i]})
TrSort == IsOp("sort") /\ UNCHANGED <<d, out>> /\ Has(E.res, "v") /\ Len(E.res.v) = Len(E.xs)
            /\ IsSortedBy(E.res.v) /\ SameBag(E.xs, E.res.v)

(* decomposition and composition *)
TrDecompose == IsOp("decompose") /\ M!MDecompose /\ Has(E.res, "v") /\
         LET x == out'[2]  r == E.res.v IN
           /\ Len(r) = 8 /\ SignOK(r[1], d)
           /\ \A k \in 2..8 : Mg(r[k]) = x[k]
TrCompose == IsOp("compose") /\
         d' = M!Compose(E.sign, Mg(E.f[1]), Mg(E.f[2]), Mg(E.f[3]), Mg(E.f[4]), Mg(E.f[5]), Mg(E.f[6]), Mg(E.f[7]))
           /\ out' = <<"dur", d'>> /\ DurIs(E.res, d')
(* std::time::Duration conversions: secs + subsec nanos *)
TrFromStd == IsOp("from_std") /\ M!MFromTotal(B!Add(B!Mul(Mg(E.secs), Ur[4]), B!FromInt(E.nanos))) /\ DurIs(E.res, d')
TrIntoStd == IsOp("into_std") /\ UNCHANGED <<d, out>> /\
         LET v == IF B!Lt(d, B!Zero) THEN B!Zero ELSE d IN
           /\ Mg(E.res.secs) = B!DivF(v, Ur[4]) /\ B!FromInt(E.res.nanos) = B!ModF(v, Ur[4])

-----------------------------------------------------------------------------
(* Known deviations (known_findings.json, status "open").  A deviation action accepts exactly   *)
(* the recorded wrong behaviour of a listed finding - the input class and the wrong output -    *)
(* prints KNOWN and resynchronises on the observed result.  Anything else is not explained.     *)
KF == JsonDeserialize(IOEnv.KNOWN_FILE)
Open(id) == \E i \in 1..Len(KF.findings) : KF.findings[i].id = id /\ KF.findings[i].status = "open"
Known(id) == PrintT(<<"KNOWN", id, l>>)

(* F1: total_nanoseconds() and what is built on it, for operands below -1 century with a        *)
(* non-zero nanosecond field                                                                    *)
Dev_F1 ==
  /\ Open("F1")
  /\ \/ /\ IsOp("total") /\ M!F1Class(d) /\ BigIs(E.res, M!F1Total(d)) /\ UNCHANGED d
          /\ out' = <<"int", M!F1Total(d)>>
      \/ /\ IsOpIn({"mul_i64", "i64_mul"})
          /\ (M!F1Class(d) \/ M!F1Class(M!Clamp(Big(E.q))))
          /\ d' = M!F1MulI(d, Big(E.q)) /\ d' # M!DMulI(d, Big(E.q)) /\ DurIs(E.res, d') /\ out' = <<"dur", d'>>
      \/ /\ IsOp("div_i64")
          /\ (M!F1Class(d) \/ M!F1Class(M!Clamp(Big(E.q))))
          /\ d' = M!F1DivI(d, Big(E.q)) /\ d' # M!DDivI(d, Big(E.q)) /\ DurIs(E.res, d') /\ out' = <<"dur", d'>>
      \/ /\ IsOp("floor") /\ (M!F1Class(d) \/ M!F1Class(DV(E.s)))
          /\ d' = M!F1Floor(d, DV(E.s)) /\ d' # M!Floor(d, DV(E.s)) /\ DurIs(E.res, d') /\ out' = <<"dur", d'>>
      \/ /\ IsOp("ceil") /\ (M!F1Class(d) \/ M!F1Class(DV(E.s)) \/ M!F1Class(M!F1Floor(d, DV(E.s))))
          /\ d' = M!F1Ceil(d, DV(E.s)) /\ d' \notin M!CeilSet(d, DV(E.s)) /\ DurIs(E.res, d') /\ out' = <<"dur", d'>>
      \/ /\ IsOp("round") /\ (M!F1Class(d) \/ M!F1Class(DV(E.s)) \/ M!F1Class(M!F1Floor(d, DV(E.s))))
          /\ d' = M!F1Round(d, DV(E.s)) /\ d' \notin M!RoundSet(d, DV(E.s)) /\ DurIs(E.res, d') /\ out' = <<"dur", d'>>
  /\ Known("F1")

DurationNext ==
  \/ Dev_F1
  \/ TrLoad \/ TrFromTotal \/ TrFromUnit \/ TrAdd \/ TrSub \/ TrAddUnit \/ TrSubUnit
  \/ TrUnitPm \/ TrFromTz
  \/ TrNeg \/ TrAbs \/ TrMulI \/ TrDivI \/ TrFloor \/ TrCeil \/ TrRound
  \/ TrParts \/ TrTotal \/ TrSignum \/ TrFromTrunc \/ TrTryTrunc \/ TrTrunc
  \/ TrCmp \/ TrCmpUnit \/ TrSort \/ TrDecompose \/ TrCompose \/ TrFromStd \/ TrIntoStd

-----------------------------------------------------------------------------
(* Epoch machine: C04, C05, C06, C08, C09 (fields), C12, C14 (epochs), C16, C20 *)

EV(p)          == X!Ep(p.ts, DV(p))                       \* a logged epoch {"ts","c","n"}
IsEp(r)        == Has(r, "ts") /\ IsDur(r)
EpIs(r, x)     == IsEp(r) /\ r.ts = x.ts /\ M!Parts(x.v) = <<r.c, Mg(r.n)>>
KeepD          == UNCHANGED <<d, out>>
KeepE          == UNCHANGED <<e, eout, sw>>
KeepS          == UNCHANGED <<ser, sout>>
KeepW          == UNCHANGED <<w, wout>>

TrELoad  == IsOp("eload") /\ KeepD /\ X!ELoad(E.ts, E.c, Mg(E.n)) /\ EpIs(E.res, e')
TrEAdd   == IsOpIn({"e_add_d", "e_add_assign_d"}) /\ KeepD /\ X!EAddD(DV(E.b)) /\ EpIs(E.res, e')
TrESub   == IsOpIn({"e_sub_d", "e_sub_assign_d"}) /\ KeepD /\ X!ESubD(DV(E.b)) /\ EpIs(E.res, e')
TrEAddU  == IsOpIn({"e_add_unit", "e_add_assign_unit"}) /\ KeepD /\ X!EAddD(Ur[E.u]) /\ EpIs(E.res, e')
TrESubU  == IsOpIn({"e_sub_unit", "e_sub_assign_unit"}) /\ KeepD /\ X!ESubD(Ur[E.u]) /\ EpIs(E.res, e')
(* Epoch + f64 seconds, the float being an exact integer: the duration added is that float times *)
(* one second by the rule of C18 (exact whenever the product is below 2^53 ns)                    *)
TrEAddF  == IsOp("e_add_f64") /\ KeepD /\ E.x.k = "fin"
              /\ X!EAddD(M!Clamp(Dy!MulTrunc(E.x, Ur[4].m))) /\ EpIs(E.res, e')

(* e - f: the re-expression fc of f in the scale of e is not logged; TLC infers it *)
TrESubE == IsOp("e_sub_e") /\ KeepD /\ IsDur(E.res) /\
           LET f == EV(E.f)
               cands == {X!Ep(e.ts, x) : x \in (X!ConvSet(f, e.ts) \cup {B!Sub(e.v, DV(E.res))})}
           IN  \E fc \in cands : X!ESubE(f, fc) /\ DurIs(E.res, eout'[2])

TrToScale == IsOp("to_scale") /\ KeepD /\ IsEp(E.res) /\ X!EToScale(E.to, EV(E.res))
               /\ M!Canonical(<<E.res.c, Mg(E.res.n)>>)
(* to_duration_in_time_scale, to_tai_duration, to_utc_duration, ...: same judgement, register kept *)
TrToDur   == IsOp("to_dur") /\ KeepD /\ IsDur(E.res) /\ KeepE
               /\ X!ConvAny(e, E.to, X!Ep(E.to, DV(E.res))) /\ M!Canonical(<<E.res.c, Mg(E.res.n)>>)

(* comparison: every operator at once, mutually consistent, and chronological *)
TrECmp == IsOp("e_cmp") /\ KeepD /\ Has(E.res, "cmp") /\
          LET r == E.res  c == r.cmp  f == EV(E.f) IN
            /\ c \in {-1, 0, 1} /\ r.pcmp = c
            /\ r.lt = (c < 0) /\ r.le = (c <= 0) /\ r.gt = (c > 0) /\ r.ge = (c >= 0)
            /\ r.ne = ~r.eq
            \* == converts in the other direction than < when exactly one operand is UTC; where a
            \* conversion saturates the two need not agree and the statement is silent
            /\ ((e.ts = f.ts \/ (X!Roomy(e) /\ X!Roomy(f))) => r.eq = (c = 0))
            \* Epoch::min/max and Ord::min/max: the earlier / later operand; either one when they are equal
            /\ (e.ts = f.ts \/ (X!Roomy(e) /\ X!Roomy(f))) =>
                 /\ \A fld \in {"min", "omin"} : IF c = 0 THEN (EpIs(r[fld], e) \/ EpIs(r[fld], f)) ELSE EpIs(r[fld], IF c < 0 THEN e ELSE f)
                 /\ \A fld \in {"max", "omax"} : IF c = 0 THEN (EpIs(r[fld], e) \/ EpIs(r[fld], f)) ELSE EpIs(r[fld], IF c > 0 THEN e ELSE f)
            /\ X!ECmp(f, c)

(* ranges and sorting follow the chronological order *)
TrERange == IsOp("e_range") /\ KeepD /\ KeepE /\ Has(E.res, "excl") /\
          LET lo == EV(E.lo)  hi == EV(E.hi)
              sure == \A x \in {lo, hi} : (x.ts = e.ts \/ (X!Roomy(x) /\ X!Roomy(e)))
              ge == X!ChronoCmp(e, lo) >= 0  lt == X!ChronoCmp(e, hi) < 0  le == X!ChronoCmp(e, hi) <= 0
          IN  sure => (E.res.excl = (ge /\ lt) /\ E.res.incl = (ge /\ le))
TrESort == IsOp("e_sort") /\ KeepD /\ KeepE /\ Has(E.res, "v") /\ Len(E.res.v) = Len(E.xs)
          /\ \A i \in 1..(Len(E.res.v) - 1) : X!ChronoCmp(EV(E.res.v[i]), EV(E.res.v[i + 1])) <= 0
          /\ SameBag(E.xs, E.res.v)
TrEFloor == IsOp("e_floor") /\ KeepD /\ X!EFloor(DV(E.s)) /\ EpIs(E.res, e')
TrECeil  == IsOp("e_ceil")  /\ KeepD /\ IsEp(E.res) /\ X!ECeil(DV(E.s), DV(E.res)) /\ EpIs(E.res, e')
TrERound == IsOp("e_round") /\ KeepD /\ IsEp(E.res) /\ X!ERound(DV(E.s), DV(E.res)) /\ EpIs(E.res, e')

(* Gregorian construction through maybe_from_gregorian* and the helper constructors *)
TrFromGreg == IsOp("from_greg") /\ KeepD /\
          LET ok == IsEp(E.res)
              r  == IF ok THEN EV(E.res) ELSE e IN
            /\ (ok \/ Has(E.res, "err"))
            /\ X!EFromGreg(E.ts, E.y, E.m, E.d, E.hh, E.mi, E.ss, E.ns, ok, r)
            /\ (ok => M!Canonical(<<E.res.c, Mg(E.res.n)>>))
(* years at the limits of the machine types (beyond what the calendar of the specification evaluates on     *)
(* TLC's integers): a canonical value in that scale or an error - never a panic, never a missed deadline     *)
TrFromGregFar == IsOp("from_greg_far") /\ KeepD /\ KeepE
            /\ (Has(E.res, "err") \/ (IsEp(E.res) /\ E.res.ts = E.ts /\ M!Canonical(<<E.res.c, Mg(E.res.n)>>)))
(* the panicking helper constructors (from_gregorian, _at_midnight, _at_noon, _hms and their _utc / _tai forms): *)
(* fields that must be rejected end in the documented panic, never in an epoch; fields that must be accepted give *)
(* the exact epoch                                                                                               *)
TrFromGregPanicky == IsOp("from_greg_panicky") /\ KeepD /\ KeepE /\ (IsEp(E.res) \/ Has(E.res, "panic"))
            /\ (X!MustReject(E.y, E.m, E.d, E.hh, E.mi, E.ss, E.ns) => Has(E.res, "panic"))
            /\ ((X!MustAccept(E.y, E.m, E.d, E.hh, E.mi, E.ss, E.ns) /\ E.ss < 60)
                  => (IsEp(E.res) /\ EV(E.res) = X!Ep(E.ts, X!FromFieldsRaw(E.ts, E.y, E.m, E.d, E.hh, E.mi, E.ss, E.ns))))
TrIsValid == IsOp("is_valid") /\ KeepD /\ KeepE
            /\ Has(E.res, "v") /\ E.res.v \in BOOLEAN
            /\ (X!MustAccept(E.y, E.m, E.d, E.hh, E.mi, E.ss, E.ns) => E.res.v = TRUE)
            /\ (X!MustReject(E.y, E.m, E.d, E.hh, E.mi, E.ss, E.ns) => E.res.v = FALSE)

(* Gregorian fields in scale E.to; the re-expression of the register is inferred *)
(* (for a register held in a dynamical scale: the closed-form instant and both ends of its tolerance) *)
ConvCands(ts2) == IF e.ts \in X!Dynamic /\ ts2 \in X!Uniform
                  THEN {X!Ep(ts2, B!Sub(B!Add(X!InstantC(e), B!FromInt(dlt)), RefR[ts2])) : dlt \in {-30, 0, 30}}
                  ELSE {X!Ep(ts2, x) : x \in X!ConvSet(e, ts2)}
TrToGreg == IsOp("to_greg") /\ KeepD /\ Has(E.res, "v") /\
            \E rc \in ConvCands(E.to) : X!EToGreg(E.to, rc) /\ eout'[2] = E.res.v
TrWeekday == IsOp("weekday") /\ KeepD /\ Has(E.res, "v") /\
            \E rc \in ConvCands(E.to) : X!EWeekday(E.to, rc) /\ eout'[2] = E.res.v
TrNext == IsOp("next") /\ KeepD /\ \E rc \in ConvCands(X!TAI) : X!ENext(E.w, rc) /\ EpIs(E.res, e')
TrPrev == IsOp("previous") /\ KeepD /\ \E rc \in ConvCands(X!TAI) : X!EPrev(E.w, rc) /\ EpIs(E.res, e')

(* week / time of week, nanosecond counters *)
TrFromTOW == IsOp("from_tow") /\ KeepD /\ X!EFromTOW(E.ts, Big(E.w), Big(E.n)) /\ EpIs(E.res, e')
TrToTOW   == IsOp("to_tow") /\ KeepD /\ X!EToTOW /\ Big(E.res.w) = eout'[2][1] /\ Big(E.res.n) = eout'[2][2]
TrFromNs  == IsOp("from_ns") /\ KeepD /\ X!ELoad(E.ts, 0, Mg(E.n)) /\ EpIs(E.res, e')
TrToNs    == IsOp("to_ns") /\ KeepD /\ KeepE /\
             \E rc \in ConvCands(E.to) :
                LET p == M!Parts(rc.v) IN
                  \/ Has(E.res, "ok") /\ p[1] = 0 /\ Big(E.res.ok) = p[2]
                  \/ Has(E.res, "err") /\ p[1] # 0

(* the public reference-epoch constants denote the documented instants (C05) *)
TrRefConst == IsOp("ref_const") /\ KeepD /\ UNCHANGED <<e, eout>> /\ IsEp(E.res) /\
              X!Instant(EV(E.res)) = (CASE E.k = 1 -> RefR[5] [] E.k = 2 -> RefR[8] [] E.k = 3 -> RefR[6]
                                        [] E.k = 4 -> RefR[7] [] E.k = 5 -> DaysNs(Cal!N(1970, 1, 1))
                                        [] OTHER -> X!Instant(EV(E.res)))
TrOffsetConsts == IsOp("offset_consts") /\ KeepD /\ UNCHANGED <<e, eout>>
              /\ B!Mul(Big(E.gps), Ur[4]) = RefR[5] /\ B!Mul(Big(E.gst), Ur[4]) = RefR[6] /\ B!Mul(Big(E.bdt), Ur[4]) = RefR[7]
              /\ F64IsInt(E.gps_f) /\ F64Int(E.gps_f) = Big(E.gps)
              /\ F64IsInt(E.gst_f) /\ F64Int(E.gst_f) = Big(E.gst)
              /\ F64IsInt(E.bdt_f) /\ F64Int(E.bdt_f) = Big(E.bdt)

(* the leap second table as the providers expose it (C06): the IERS-announced entries are       *)
(* exactly the IERS record (derived from the dates in Real.tla), in both iteration directions    *)
(* and by index; the built-in table may add SOFA entries, all before 1972 and flagged as such    *)
IersOf(v)  == SelectSeq(v, LAMBDA x : x.iers)
RevSeq(v)  == [i \in 1..Len(v) |-> v[Len(v) + 1 - i]]
IsRecord(v) == /\ Len(v) = Len(LeapR)
               /\ \A i \in 1..Len(v) : /\ F64IsInt(v[i].t) /\ B!Mul(F64Int(v[i].t), Ur[4]) = LeapR[i][1]
                                        /\ F64IsInt(v[i].d) /\ B!Mul(F64Int(v[i].d), Ur[4]) = LeapR[i][2]
TrLeapDump == IsOp("leap_dump") /\ KeepD /\ UNCHANGED <<e, eout>> /\ Has(E.res, "v") /\
      LET v   == IF E.src \in {"builtin_rev", "file_rev"} THEN RevSeq(E.res.v) ELSE E.res.v
          isB == E.src \in {"builtin_fwd", "builtin_rev", "builtin_idx"}
      IN  /\ IsRecord(IersOf(v))
          /\ (~isB => Len(v) = Len(LeapR))
          /\ \A i \in 1..Len(v) : ~v[i].iers =>
                 (isB /\ v[i].t.k = "fin" /\ B!Lt(B!Mul(B!Mk(FALSE, v[i].t.m), Ur[4]), B!Mul(LeapR[1][1], B!Pow2(IF v[i].t.e < 0 THEN -v[i].t.e ELSE 0))))
(* the providers walked through skip / nth followed by the rest / step_by (all built on Iterator::nth): the entries  *)
(* of the table (E.all: the indexed listing, itself judged by leap_dump), in order, none twice                          *)
TrLeapAdapt == IsOp("leap_adapt") /\ KeepD /\ UNCHANGED <<e, eout>> /\ Has(E.res, "v") /\
      LET all == E.all  n == E.n  L == Len(E.all) IN
        E.res.v = (IF E.how \in {"skip", "nth_then"} THEN SubSeq(all, n + 1, L)
                   ELSE [i \in 1..(IF L = 0 THEN 0 ELSE (L - 1) \div n + 1) |-> all[(i - 1) * n + 1]])
(* the NAIF kernel shipped with the sources lists the same record *)
TrLeapNaif == IsOp("leap_naif") /\ KeepD /\ UNCHANGED <<e, eout>> /\ Has(E.res, "v") /\
      LET v == E.res.v IN
        /\ Len(v) = Len(LeapDates)
        /\ \A i \in 1..Len(v) : v[i].d = 9 + i /\ v[i].y = LeapDates[i][1] /\ v[i].mo = LeapDates[i][2] /\ v[i].day = 1
(* leap_seconds(true) and leap_seconds_with(true, provider): the offset in force; the built-in   *)
(* table and the provider loaded from the IERS file answer identically.  The statement does not  *)
(* say whether "in force" is read at the count or at the UTC time of the instant, so both are    *)
(* admitted for epochs inside the delta_at seconds that follow an entry on the TAI axis.         *)
LeapAnswers(x) ==
  LET t == X!Instant(x) IN {X!Offset(t)} \cup {X!Offset(u) : u \in X!TaiToUtcSet(t)}
OptIs(r, S) == \/ (Has(r, "none") /\ B!Zero \in S)
               \/ (Has(r, "some") /\ F64IsInt(r.some) /\ B!Mul(F64Int(r.some), Ur[4]) \in S /\ r.some.m # <<>>)
TrLeapQuery == IsOp("leap_query") /\ KeepD /\ UNCHANGED <<e, eout>> /\ e.ts \in X!Uniform \cup {X!UTC} /\
      LET S == LeapAnswers(e) IN
        /\ OptIs(E.builtin, S) /\ E.with = E.builtin /\ E.file = E.builtin
        /\ Has(E.iers_i32, "v")
        /\ B!Mul(B!FromInt(E.iers_i32.v), Ur[4]) = (IF Has(E.builtin, "some") THEN B!Mul(F64Int(E.builtin.some), Ur[4]) ELSE B!Zero)

(* A provider loaded from an IERS-format file (C06, the configurations): the file is logged line by line, *)
(* spec/LeapFile.tla says which lines are entries; a file all of whose data lines are well formed and in    *)
(* range (u64 seconds, u8 offset) loads and lists exactly those entries, in order, all announced by IERS;  *)
(* a file with a line that is certainly not an entry is an error, never a shorter table.                    *)
DigitsVal(ds) == B!Mk(FALSE, B!MagOfDigits(ds))
TrLeapFile == IsOp("leap_file") /\ KeepD /\ UNCHANGED <<e, eout>> /\
      LET ok  == Has(E.res, "v")
          en  == X!EntriesOf(E.lines)
          inr == \A i \in 1..Len(en) : B!Lt(DigitsVal(en[i][1]), B!Pow2(53)) /\ B!Le(DigitsVal(en[i][2]), B!FromInt(255))
          big == \E i \in 1..Len(en) : B!Lt(U64MAX, DigitsVal(en[i][1])) \/ B!Lt(B!FromInt(255), DigitsVal(en[i][2]))
      IN  /\ (ok \/ Has(E.res, "err"))
          /\ (X!SomeNo(E.lines) => ~ok)
          /\ ((X!AllYes(E.lines) /\ big) => ~ok)
          /\ ((X!AllYes(E.lines) /\ inr) =>
                 /\ ok /\ Len(E.res.v) = Len(en)
                 /\ \A i \in 1..Len(en) :
                      /\ F64IsInt(E.res.v[i].t) /\ F64Int(E.res.v[i].t) = DigitsVal(en[i][1])
                      /\ F64IsInt(E.res.v[i].d) /\ F64Int(E.res.v[i].d) = DigitsVal(en[i][2])
                      /\ E.res.v[i].iers)
(* leap_seconds_with(true, provider) for a provider holding the logged table: the offset of the last entry   *)
(* that is not after the instant (read at the TAI count or at the UTC time, as for the built-in table)      *)
RECURSIVE OffsetInFrom(_, _, _)
OffsetInFrom(tab, t, i) == IF i = 0 THEN -1
                           ELSE IF B!Le(B!Mul(Big(tab[i].t), Ur[4]), t) THEN tab[i].d ELSE OffsetInFrom(tab, t, i - 1)
TrLeapWith == IsOp("leap_with") /\ KeepD /\ UNCHANGED <<e, eout>> /\ e.ts \in X!Uniform \cup {X!UTC} /\
      LET t == X!Instant(e)
          S == {OffsetInFrom(E.tab, x, Len(E.tab)) : x \in {t} \cup X!TaiToUtcSet(t)}
      IN  \/ (Has(E.res, "none") /\ -1 \in S)
          \/ (Has(E.res, "some") /\ F64IsInt(E.res.some) /\ ~E.res.some.neg /\ B!ToInt(F64Int(E.res.some)) \in S)

(* leap_seconds(false): with the SOFA entries.  Its value is not pinned; it is recorded so that the calls that  *)
(* follow it are judged in its wake (the non-IERS entries must not influence conversions)                      *)
TrLeapAll == IsOp("leap_all") /\ KeepD /\ UNCHANGED <<e, eout>> /\ (Has(E.res, "none") \/ (Has(E.res, "some") /\ E.res.some.k = "fin"))

(* sorted sweep TAI -> UTC: each item admissible, and never earlier than its predecessor (C06) *)
TrSweepUtc == IsOp("sweep_utc") /\ KeepD /\ UNCHANGED <<e, eout>> /\ IsEp(E.res) /\ E.res.ts = X!UTC
              /\ DV(E.res) \in X!TaiToUtcSet(DV(E.tai))
              /\ (IF E.first THEN TRUE ELSE B!Le(sw, DV(E.res)))
              /\ sw' = DV(E.res)

(* F27: TAI instants in the ten seconds that follow 1972-01-01T00:00:00 TAI - the stretch the   *)
(* first table entry makes UTC -> TAI skip - are converted to UTC with the NEW offset (t - 10 s) *)
(* instead of waiting at the entry, so TAI -> UTC jumps back by 10 s at that instant.  Pinned by *)
(* tests/epoch.rs::utc_tai (to_tai_seconds() > to_utc_seconds() at TAI 1972-01-01T00:00:00).     *)
F27Applies(x) == Open("F27") /\ x.ts \in (X!Uniform) /\ X!StepAt(X!Instant(x)) = 1 /\ X!InGap(X!Instant(x))
F27Utc(x)     == B!Sub(X!Instant(x), X!LeapD(1))
Dev_F27 ==
  /\ \/ /\ IsOp("to_scale") /\ E.to = X!UTC /\ F27Applies(e) /\ KeepD /\ UNCHANGED sw
          /\ e' = X!Ep(X!UTC, F27Utc(e)) /\ EpIs(E.res, e') /\ eout' = <<"conv", e'>>
      \/ /\ IsOp("to_dur") /\ E.to = X!UTC /\ F27Applies(e) /\ KeepD /\ KeepE
          /\ DurIs(E.res, F27Utc(e))
      \/ /\ IsOp("sweep_utc") /\ F27Applies(X!Ep(X!TAI, DV(E.tai))) /\ KeepD /\ UNCHANGED <<e, eout>>
          /\ DurIs(E.res, F27Utc(X!Ep(X!TAI, DV(E.tai)))) /\ sw' = DV(E.res)
      \/ /\ IsOp("e_sub_e") /\ e.ts = X!UTC /\ F27Applies(EV(E.f)) /\ KeepD /\ KeepE
          /\ DurIs(E.res, M!DSub(e.v, F27Utc(EV(E.f))))
      \/ /\ IsOp("e_cmp") /\ e.ts = X!UTC /\ F27Applies(EV(E.f)) /\ KeepD /\ KeepE /\ Has(E.res, "cmp")
          /\ E.res.cmp = M!DCmp(e.v, F27Utc(EV(E.f))) /\ E.res.cmp # X!ChronoCmp(e, EV(E.f))
      \/ /\ IsOpIn({"to_greg", "weekday"}) /\ E.to = X!UTC /\ F27Applies(e) /\ KeepD /\ KeepE
          /\ Has(E.res, "v")
          /\ E.res.v = (IF E.op = "to_greg" THEN X!Fields(X!UTC, F27Utc(e)) ELSE X!WeekdayIn(X!UTC, F27Utc(e)))
  /\ Known("F27")

(* F11: 30 and 31 February are accepted in leap years and silently become 1 and 2 March.       *)
(* Pinned by tests/epoch.rs::test_range, which builds 2012-02-30 with a panicking constructor.   *)
F11Class == E.m = 2 /\ E.d \in {30, 31} /\ Cal!IsLeap(E.y)
            /\ ~X!MustReject(E.y, 2, 29, E.hh, E.mi, E.ss, E.ns)
F11Exact == X!MustAccept(E.y, 2, 29, E.hh, E.mi, E.ss, E.ns) /\ E.ss < 60
Dev_F11 ==
  /\ Open("F11")
  /\ \/ /\ IsOp("from_greg") /\ F11Class /\ KeepD /\ UNCHANGED sw /\ IsEp(E.res)
          /\ e' = EV(E.res) /\ eout' = <<"greg", TRUE>>
          /\ (F11Exact => e' = X!Ep(E.ts, X!FromFieldsRaw(E.ts, E.y, E.m, E.d, E.hh, E.mi, E.ss, E.ns)))
      \/ /\ IsOp("is_valid") /\ F11Class /\ KeepD /\ KeepE /\ Has(E.res, "v") /\ E.res.v = TRUE
      \/ /\ IsOp("parse_epoch") /\ KeepD /\ UNCHANGED sw /\ IsEp(E.res) /\
             LET p == X!ParseIso(E.s) IN
               /\ p.g /\ p.m = 2 /\ p.d \in {30, 31} /\ Cal!IsLeap(p.y) /\ p.oh <= 23 /\ p.om <= 59
               /\ X!MustAccept(p.y, 2, 29, p.hh, p.mi, p.ss, p.ns) /\ p.ss < 60
               /\ e' = X!Ep(p.ts, X!IsoValue(p)) /\ EpIs(E.res, e') /\ eout' = <<"parsed", TRUE>>
  /\ Known("F11")

EpochNext1 ==
  \/ TrRefConst \/ TrOffsetConsts \/ TrLeapDump \/ TrLeapAdapt \/ TrLeapNaif \/ TrLeapQuery \/ TrLeapFile \/ TrLeapWith \/ TrLeapAll
  \/ TrELoad \/ TrEAdd \/ TrESub \/ TrEAddU \/ TrESubU \/ TrEAddF \/ TrESubE
  \/ TrToScale \/ TrToDur \/ TrECmp \/ TrERange \/ TrESort \/ TrEFloor \/ TrECeil \/ TrERound
  \/ TrFromGreg \/ TrFromGregFar \/ TrFromGregPanicky \/ TrIsValid \/ TrToGreg \/ TrWeekday \/ TrNext \/ TrPrev
  \/ TrFromTOW \/ TrToTOW \/ TrFromNs \/ TrToNs
(* F1 through Epoch::floor / ceil / round (they act on the elapsed time with Duration's methods) *)
Dev_F1E ==
  /\ Open("F1") /\ KeepD /\ UNCHANGED sw /\ l <= Len(Rec) /\ E.op \in {"e_floor", "e_ceil", "e_round"} /\ IsEp(E.res)
  /\ \/ /\ IsOp("e_floor") /\ (M!F1Class(e.v) \/ M!F1Class(DV(E.s)))
          /\ e' = X!Ep(e.ts, M!F1Floor(e.v, DV(E.s))) /\ e'.v # M!Floor(e.v, DV(E.s))
      \/ /\ IsOp("e_ceil") /\ (M!F1Class(e.v) \/ M!F1Class(DV(E.s)) \/ M!F1Class(M!F1Floor(e.v, DV(E.s))))
          /\ e' = X!Ep(e.ts, M!F1Ceil(e.v, DV(E.s))) /\ e'.v \notin M!CeilSet(e.v, DV(E.s))
      \/ /\ IsOp("e_round") /\ (M!F1Class(e.v) \/ M!F1Class(DV(E.s)) \/ M!F1Class(M!F1Floor(e.v, DV(E.s))))
          /\ e' = X!Ep(e.ts, M!F1Round(e.v, DV(E.s))) /\ e'.v \notin M!RoundSet(e.v, DV(E.s))
  /\ EpIs(E.res, e') /\ eout' = <<"epoch", e'>>
  /\ Known("F1")

EpochNext == ((TrSweepUtc \/ (UNCHANGED sw /\ EpochNext1) \/ Dev_F27 \/ Dev_F1E) /\ KeepS /\ KeepW) \/ (Dev_F11 /\ KeepS /\ KeepW)

-----------------------------------------------------------------------------
(* TimeSeries machine: C15 *)
TrSeriesNew == IsOp("series_new") /\ Has(E.res, "v") /\
      LET st == EV(E.start)  en == EV(E.end) IN
        \E sc \in {X!Ep(en.ts, x) : x \in X!ConvSet(st, en.ts)} : X!SNew(st, en, DV(E.step), E.incl, sc)
ItemIs(r, o) == \/ (o[1] = "none" /\ Has(r, "none"))
                \/ (o[1] = "some" /\ EpIs(r, o[2]))
TrSeriesNext == IsOp("series_next") /\ X!SNext /\ ItemIs(E.res, sout')
TrSeriesNth  == IsOp("series_nth")  /\ X!SNth(E.n) /\ ItemIs(E.res, sout')
(* Iterator::last and Iterator::count of the series as it stands (on a copy: the register is unchanged): the last  *)
(* of the items still to come, start + (Count - 1) * step, and their number                                         *)
TrSeriesLast == IsOp("series_last") /\ UNCHANGED <<ser, sout>> /\
      LET n == X!CountOf(ser) IN
        IF ser.k >= n THEN Has(E.res, "none") /\ E.count = 0
        ELSE /\ EpIs(E.res, X!Ep(ser.start.ts, M!DAdd(ser.start.v, M!DMulI(ser.step, B!FromInt(n - 1)))))
             /\ E.count = n - ser.k
SeriesNext == TrSeriesNew \/ TrSeriesNext \/ TrSeriesNth \/ TrSeriesLast

(* Weekday machine: C16 (arithmetic modulo 7) *)
WdIs(r, x) == Has(r, "v") /\ r.v = x
TrWdFromU8 == IsOp("wd_from_u8") /\ W!WFromU8(E.u) /\ WdIs(E.res, w')
TrWdFromI8 == IsOp("wd_from_i8") /\ W!WFromI8(E.i) /\ WdIs(E.res, w')
TrWdAddU8  == IsOpIn({"wd_add_u8", "wd_add_assign_u8"}) /\ W!WAddU8(E.u) /\ WdIs(E.res, w')
TrWdSubU8  == IsOpIn({"wd_sub_u8", "wd_sub_assign_u8"}) /\ W!WSubU8(E.u) /\ WdIs(E.res, w')
TrWdAddW   == IsOp("wd_add_w") /\ W!WAddW(E.b) /\ WdIs(E.res, w')
TrWdDiff   == IsOp("wd_diff") /\ W!WDiff(E.b) /\ DurIs(E.res, B!Mul(B!FromInt(wout'[2]), Ur[7]))
WeekdayNext == TrWdFromU8 \/ TrWdFromI8 \/ TrWdAddU8 \/ TrWdSubU8 \/ TrWdAddW \/ TrWdDiff

-----------------------------------------------------------------------------
(* Text: C09 (Display), C10 (round trips), C11 (duration text), C13 (totality), C19 (formats) *)
TextIs(r, x) == Has(r, "v") /\ r.v = x
KeepAll == KeepD /\ UNCHANGED <<e, eout>> /\ KeepS /\ KeepW

(* the scale a form prints in *)
FormScale == CASE E.form \in {"display", "iso8601", "isoformat", "serde"} -> e.ts
               [] E.form \in {"debug", "rfc3339"} -> X!UTC [] E.form = "lowerhex" -> X!TAI [] E.form = "upperhex" -> X!TT
               [] E.form = "lowerexp" -> X!TDB [] E.form = "upperexp" -> X!ET [] OTHER -> E.to
FormText(ts, v) ==
  CASE E.form = "rfc3339"   -> X!Rfc3339(v)
    [] E.form = "iso8601"   -> X!DateTimeText(X!Fields(ts, v), TRUE) \o <<32>> \o X!ScaleName(ts)
    [] E.form = "isoformat" -> SubSeq(X!DateTimeText(X!Fields(ts, v), TRUE), 1, 26)
    [] OTHER                -> X!Display(ts, v)
TrFmtEpoch == IsOp("fmt_epoch") /\ KeepAll /\ Has(E.res, "v") /\
      LET ts == FormScale IN
        /\ (ts \in X!Dynamic => ts = e.ts)
        /\ \E rc \in ConvCands(ts) : E.res.v = FormText(ts, rc.v)
TrAccessors == IsOp("accessors") /\ KeepAll /\ Has(E.res, "year") /\
      LET f == X!Fields(e.ts, e.v) IN E.res.year = f[1] /\ E.res.month = f[2]
(* Epoch::hours() ... nanoseconds(): the decomposition of the elapsed time *)
TrEpochHms == IsOp("epoch_hms") /\ KeepAll /\ Has(E.res, "v") /\
      LET x == M!Decompose(e.v) IN \A k \in 1..6 : Mg(E.res.v[k]) = x[k + 2]

(* parsing an epoch: value or error, never a panic; in-grammar sentences have their value *)
TrParseEpoch == IsOp("parse_epoch") /\ KeepD /\ KeepS /\ KeepW /\ UNCHANGED sw /\
      LET ok == IsEp(E.res)
          r  == IF ok THEN EV(E.res) ELSE e IN
        /\ (ok \/ Has(E.res, "err"))
        /\ X!ParseEpochOK(E.s, ok, r)
        /\ (ok => M!Canonical(<<E.res.c, Mg(E.res.n)>>))
        /\ e' = r /\ eout' = <<"parsed", ok>>

(* duration text *)
TrFmtDur == IsOp("fmt_dur") /\ KeepAll /\ TextIs(E.res, X!Show(d))
TrParseDur == IsOp("parse_dur") /\ KeepE /\ KeepS /\ KeepW /\
      LET ok == IsDur(E.res)
          r  == IF ok THEN DV(E.res) ELSE d IN
        /\ (ok \/ Has(E.res, "err"))
        /\ X!ParseDurationOK(E.s, ok, r)
        /\ (ok => M!Canonical(<<E.res.c, Mg(E.res.n)>>))
        /\ d' = r /\ out' = <<"parsed", ok>>
TrSubdivision == IsOp("subdivision") /\ KeepAll /\
      LET x == M!Decompose(d) IN
        IF E.u \in {8, 9} THEN Has(E.res, "none")
        ELSE DurIs(E.res, B!Mul(x[9 - E.u], Ur[E.u]))

(* L2 for the tokenizer model: the class string explored by TLC in MC_Tokenizer, its concretisation, and what the  *)
(* real from_gregorian_str did with it.  A panic or a missed deadline is not explained (C13).  Otherwise the event  *)
(* is accepted, and DRIFT is printed when the implementation-shaped model and the parser disagree: a string the    *)
(* parser accepts must be tokenized to its end by the model, a string the model rejects must be an error.          *)
TK == INSTANCE TokenizerModel
CodeClass(c) == CASE c \in 48..57 -> "d" [] c = 45 -> "-" [] c = 58 -> ":" [] c = 46 -> "." [] c = 84 -> "T" [] c = 90 -> "Z"
                  [] c = 43 -> "+" [] c = 32 -> " " [] c = 233 -> "e2" [] c = 1635 -> "n2" [] c = 8364 -> "e3" [] c = 119070 -> "e4"
                  [] OTHER -> "x"
TrTokModel == IsOp("tok_model") /\ KeepAll /\ UNCHANGED sw
      /\ (IsEp(E.res) \/ Has(E.res, "err"))
      /\ Len(E.cls) = Len(E.s) /\ (\A i \in 1..Len(E.s) : CodeClass(E.s[i]) = E.cls[i])
      /\ LET v == TK!Run(E.cls)[1] IN
           ((IsEp(E.res) /\ v # "end") \/ (v = "err" /\ IsEp(E.res)) \/ v = "PANIC") => PrintT(<<"DRIFT", l>>)

(* the other parsers: a value or an error, never a panic or a hang (C13) *)
TrTotality == IsOp("totality") /\ KeepAll /\ (Has(E.res, "ok") \/ Has(E.res, "err"))
TrParseScale == IsOp("parse_scale") /\ KeepAll /\
      LET ts == X!ScaleOfName(X!Trim(E.s)) IN
        IF ts >= 0 THEN TextIs(E.res, ts) ELSE Has(E.res, "err")

(* formats *)
TrFmtFromStr == IsOp("fmt_from_str") /\ KeepAll /\
      IF X!ParseFormat(E.s).ok THEN Has(E.res, "ok") ELSE Has(E.res, "err")
(* Formatter::new / with_timezone / to_time_scale + Display, for formats built from judged tokens *)
TrRender == IsOp("render") /\ KeepAll /\ Has(E.res, "v") /\
      LET pf == X!ParseFormat(E.fmt) IN
        pf.ok /\ (X!AllJudged(pf.items) =>
          \E rc \in ConvCands(E.to) : E.res.v = (IF E.how = 3 THEN X!RenderSet(pf.items, E.to, rc.v, DV(E.off))
                                                     ELSE X!Render(pf.items, E.to, rc.v, DV(E.off))))
(* each predefined format is the format its documentation states *)
TrConstEq == IsOp("const_eq") /\ KeepAll /\ E.doc = X!DocOf(E.name) /\ TextIs(E.res, TRUE)
TrRenderConst == IsOp("render_const") /\ KeepAll /\ Has(E.res, "v") /\
      E.res.v = X!Render(X!ParseFormat(X!DocOf(E.name)).items, e.ts, e.v, DV(E.off))
(* parse with a format: total; and the rendering of a UTC epoch parses back to it *)
FmtOff == IF Has(E, "off") THEN DV(E.off) ELSE B!Zero
TrFmtParse == IsOp("fmt_parse") /\ KeepAll /\
      LET ok == IsEp(E.res)
          pf == X!ParseFormat(E.fmt) IN
        /\ (ok \/ Has(E.res, "err"))
        /\ (pf.ok /\ e.ts = X!UTC /\ X!RoundTrippable(pf.items)
             /\ (X!HasTok(pf.items, X!tf) \/ X!Fields(X!UTC, e.v)[7] = 0)
             /\ X!Fields(X!UTC, e.v)[1] \in 1..9999
             /\ X!Fields(X!UTC, M!DAdd(e.v, FmtOff))[1] \in 1..9999
             /\ (FmtOff = B!Zero \/ X!HasTok(pf.items, X!tz))
             /\ E.s = X!Render(pf.items, X!UTC, e.v, FmtOff))
            => (ok /\ EV(E.res) = e)
        \* a well-formed sentence of an all-numeric format with a field out of range is an error
        /\ (pf.ok /\ X!NumFormat(pf.items)) =>
              LET mt == X!MatchNum(pf.items, E.s) IN (mt[1] /\ X!NumMustReject(pf.items, mt[2])) => ~ok
        \* ... and of a numeric format that ends in %z: also when the offset hours are beyond 24 or the minutes beyond 59
        /\ (pf.ok /\ X!NumFormatZ(pf.items)) =>
              LET mt == X!MatchNumZ(pf.items, E.s)
                  nm == SubSeq(pf.items, 1, Len(pf.items) - 1) IN
                (mt[1] /\ (X!NumMustReject(nm, mt[2]) \/ mt[3] > 24 \/ mt[4] > 59)) => ~ok

(* "the ISO 8601 formatter output equals the default display" *)
TrIsoVsDisplay == IsOp("iso_vs_display") /\ KeepAll /\ Has(E.iso, "v") /\ Has(E.disp, "v")
      /\ E.disp.v = X!Display(e.ts, e.v) /\ E.iso.v = E.disp.v
(* F25: for whole seconds the ISO8601 constant (which is the format string it documents: %f is not *)
(* optional) prints ".000000000" and Display prints no fraction.  The two clauses of C19 cannot    *)
(* both hold there; neither side can be changed without breaking the other clause or the tests.    *)
Dev_F25 == /\ Open("F25") /\ IsOp("iso_vs_display") /\ KeepAll /\ Has(E.iso, "v") /\ Has(E.disp, "v")
           /\ X!Fields(e.ts, e.v)[7] = 0
           /\ E.disp.v = X!Display(e.ts, e.v)
           /\ E.iso.v = X!DateTimeText(X!Fields(e.ts, e.v), TRUE) \o <<32>> \o X!ScaleName(e.ts)
           /\ Known("F25")

TextNext1 ==
  \/ TrIsoVsDisplay \/ Dev_F25
  \/ TrFmtEpoch \/ TrAccessors \/ TrEpochHms \/ TrParseEpoch \/ TrFmtDur \/ TrParseDur \/ TrSubdivision
  \/ TrTotality \/ TrTokModel \/ TrParseScale \/ TrFmtFromStr \/ TrRender \/ TrConstEq \/ TrRenderConst \/ TrFmtParse
TextNext == UNCHANGED sw /\ TextNext1

-----------------------------------------------------------------------------
(* Floats: C18 (Duration <-> float), C17 (JD / MJD / UNIX views), C20 (day of year), C10 (numeric forms) *)
IsFin(x) == x.k = "fin"
(* a finite double times a unit, rounded to nearest, truncated to whole ns, clamped: the rule of C18 *)
F64TimesUnit(x, u) == M!Clamp(Dy!MulTrunc(x, Ur[u].m))
FloatDurOK(x, u, r) ==
  CASE x.k = "fin" -> r = F64TimesUnit(x, u)
    [] x.k = "inf" -> r = (IF x.neg THEN M!MinV ELSE M!MaxV)
    [] OTHER       -> TRUE                                   \* NaN: any value, but a value
(* x * Unit, Unit * x, x.seconds() ..., Duration::from_seconds(x) ... *)
TrF64Unit == IsOp("f64_unit") /\ KeepE /\ KeepS /\ KeepW /\ IsDur(E.res)
               /\ d' = DV(E.res) /\ M!Canonical(<<E.res.c, Mg(E.res.n)>>) /\ FloatDurOK(E.x, E.u, d') /\ out' = <<"dur", d'>>
(* Duration * f64 for finite x: within 1 ns + float rounding (2^-50 relative) of the real product *)
ProdNear(dv, x, r) ==
  LET s    == IF x.e < 0 THEN -x.e ELSE 0
      prod == B!Mk(dv.neg # x.neg, B!MulMag(B!MulMag(dv.m, x.m), B!Pow2Mag(s + x.e)))     \* d * x * 2^s
      rs   == B!Mk(r.neg, B!MulMag(r.m, B!Pow2Mag(s)))
      tol  == B!AddMag(B!Pow2Mag(s), Dy!Shr(prod.m, 50)[1])
  IN  B!CmpMag(B!Sub(rs, prod).m, tol) <= 0
(* Sharper, where it is well defined.  The factor has a decimal precision p <= 22 when the double x * 10^p   *)
(* is a whole number q (10^p is exact up to 10^22): the implementation's documented method is the exact      *)
(* decimal product d * q / 10^p truncated (MulDec); the statement's rule for a duration that is itself a     *)
(* double (|d| < 2^53 ns) is the float product rounded to nearest then truncated (MulRN).  Either is         *)
(* admitted; another value within the tolerance is admitted only where neither is defined (no such p, the    *)
(* scaled product beyond an i128, or |d| >= 2^53 where the float product depends on how d is rounded).       *)
ScaledF64(x, p) == IF x.e >= 0 THEN Dy!RN53P2(B!MulMag(B!MulMag(x.m, B!Pow10Mag(p)), B!Pow2Mag(x.e)), 0)
                   ELSE Dy!RN53P2(B!MulMag(x.m, B!Pow10Mag(p)), -x.e)
IsWhole(r) == Dy!IsWholeMag(r[1], r[2])
RECURSIVE DecPFrom(_, _)
DecPFrom(x, p) == IF p > 22 THEN -1 ELSE IF IsWhole(ScaledF64(x, p)) THEN p ELSE DecPFrom(x, p + 1)
DecP(x) == IF x.m = <<>> THEN 0 ELSE DecPFrom(x, 0)
MulDecQ(x, p) == IF x.m = <<>> THEN <<>> ELSE LET r == ScaledF64(x, p) IN Dy!TruncMag(r[1], r[2])
MulDec(dv, x, p) == M!Clamp(B!Mk(dv.neg # x.neg, B!DivModMag(B!MulMag(dv.m, MulDecQ(x, p)), B!Pow10Mag(p))[1]))
MulRN(dv, x) == M!Clamp(B!Mk(dv.neg # x.neg, Dy!MulTrunc([x EXCEPT !.neg = FALSE], dv.m).m))
MulF64OK(dv, x, r) ==
  LET p == DecP(x)
      tolerant == M!InRange(B!Mk(dv.neg # x.neg, Dy!TruncMag(B!MulMag(dv.m, x.m), x.e))) => ProdNear(dv, x, r) IN
    IF p >= 0 /\ B!CmpMag(B!MulMag(dv.m, MulDecQ(x, p)), B!Pow2Mag(127)) < 0
    THEN \/ r = MulDec(dv, x, p)
         \/ (B!CmpMag(dv.m, Dy!P53) < 0 /\ r = MulRN(dv, x))
         \/ (B!CmpMag(dv.m, Dy!P53) >= 0 /\ tolerant)
    ELSE tolerant
TrMulF64 == IsOp("mul_f64") /\ KeepE /\ KeepS /\ KeepW /\ IsDur(E.res) /\ IsFin(E.x)
               /\ d' = DV(E.res) /\ M!Canonical(<<E.res.c, Mg(E.res.n)>>) /\ out' = <<"dur", d'>>
               /\ MulF64OK(d, E.x, d')
(* to_seconds / to_unit: within a few ulp of the exact quotient (of one second's worth near zero), right sign *)
F64SignOK(x, v) == IF v = B!Zero THEN x.m = <<>> ELSE (x.m # <<>> /\ x.neg = v.neg)
TrToUnit == IsOp("to_unit") /\ KeepAll /\ IsFin(E.res)
               /\ Dy!WithinUlps(E.res, d, Ur[E.u].m, Ur[4].m, 4) /\ F64SignOK(E.res, d)
(* sorted sweep: to_unit is non-decreasing in the duration (the previous value is kept in sw as a double record) *)
F64Le(a, b) ==      \* a <= b for logged finite doubles
  LET s  == (IF a.e < 0 THEN -a.e ELSE 0) + (IF b.e < 0 THEN -b.e ELSE 0)
      av == B!Mk(a.neg, B!MulMag(a.m, B!Pow2Mag(s + a.e)))
      bv == B!Mk(b.neg, B!MulMag(b.m, B!Pow2Mag(s + b.e)))
  IN  B!Le(av, bv)
TrSweepUnit == IsOp("sweep_unit") /\ KeepD /\ KeepS /\ KeepW /\ UNCHANGED <<e, eout>> /\ IsFin(E.res)
               /\ Dy!WithinUlps(E.res, DV(E.d), Ur[E.u].m, Ur[4].m, 4)
               /\ (IF E.first THEN TRUE ELSE F64Le(sw, E.res))
               /\ sw' = E.res

(* C17: duration-valued views are exact affine re-expressions *)
ViewOffset(name) ==
  CASE name = "mjd" -> DaysNs(Cal!N(1900, 1, 1) - Cal!N(1858, 11, 17))                       \* 15 020 days
    [] name = "jde" -> B!Add(DaysNs(Cal!N(1900, 1, 1) - Cal!N(1858, 11, 17)), B!Add(DaysNs(2400000), Sec(43200)))
    [] name = "j2k" -> B!Neg(J2000Ns)                                                        \* 3 155 716 800 s
    [] name = "unix" -> B!Neg(DaysNs(Cal!N(1970, 1, 1)))
    [] OTHER -> B!Zero
(* the exact value (ns) of view `name` of the register in scale `to` *)
ViewVals(name, to) == { B!Add(rc.v, ViewOffset(name)) : rc \in ConvCands(to) }
TrViewDur == IsOp("view_dur") /\ KeepAll /\ IsDur(E.res) /\ E.to \notin X!Dynamic
               /\ \E x \in ViewVals(E.view, E.to) : M!InRange(x) => DurIs(E.res, x)
TrViewF64 == IsOp("view_f64") /\ KeepAll /\ IsFin(E.res) /\ E.to \notin X!Dynamic
               /\ \E x \in ViewVals(E.view, E.to) : Dy!WithinUlps(E.res, x, Ur[E.u].m, Ur[4].m, 4)
(* constructors from a float view: the value minus the view's offset, to float precision of the *)
(* value given (4 ulp of max(|x|, 1) in that unit) plus the truncation to a nanosecond           *)
(* JD and MJD count the days of the calendar of the scale the epoch is built in: the elapsed time is counted   *)
(* from that scale's own reference date (zero for TAI, TT and UTC, which count from 1900-01-01)                *)
GregRefNs(ts) == B!Add(DaysNs(GregDayR[ts]), GregTodR[ts])
ViewOffsetIn(name, ts) == IF name \in {"mjd", "jde"} THEN B!Add(ViewOffset(name), GregRefNs(ts)) ELSE ViewOffset(name)
FromViewOK(x, u, voff, v) ==
  LET s     == IF x.e < 0 THEN -x.e ELSE 0
      \* everything times 2^s: exact = x * unit - offset
      exact == B!Sub(B!Mk(x.neg, B!MulMag(B!MulMag(x.m, Ur[u].m), B!Pow2Mag(s + x.e))), B!Mul(voff, B!Pow2(s)))
      \* tolerance, times 2^s: 4 ulp of the largest magnitude the computation goes through (the value given,
      \* the view's offset, their difference), in nanoseconds, plus 2 ns; ulp(y) <= y * 2^-52
      xa    == B!MulMag(B!MulMag(x.m, Ur[u].m), B!Pow2Mag(s + x.e))
      oa    == B!MulMag(voff.m, B!Pow2Mag(s))
      m1    == IF B!CmpMag(xa, oa) >= 0 THEN xa ELSE oa
      big   == IF B!CmpMag(m1, exact.m) >= 0 THEN m1 ELSE exact.m
      tol   == B!AddMag(Dy!Shr(B!MulSmallMag(big, 4), 52)[1], B!Pow2Mag(s + 1))
  IN  B!CmpMag(B!Sub(B!Mul(v, B!Pow2(s)), exact).m, tol) <= 0
TrFromView == IsOp("from_view") /\ KeepD /\ KeepS /\ KeepW /\ UNCHANGED sw /\ IsEp(E.res) /\ IsFin(E.x)
               /\ e' = EV(E.res) /\ e'.ts = E.ts /\ M!Canonical(<<E.res.c, Mg(E.res.n)>>) /\ eout' = <<"epoch", e'>>
               /\ FromViewOK(E.x, E.u, ViewOffsetIn(E.view, E.ts), e'.v)

(* Epoch::from_unix_duration(d): the UTC count is the 25 567 days from 1900-01-01 to 1970-01-01 plus d, exactly *)
TrFromUnixDur == IsOp("from_unix_dur") /\ KeepD /\ KeepS /\ KeepW /\ UNCHANGED sw /\ IsEp(E.res)
               /\ e' = X!Ep(X!UTC, M!DAdd(DaysNs(Cal!N(1970, 1, 1)), DV(E.d))) /\ EpIs(E.res, e') /\ eout' = <<"epoch", e'>>

(* Duration::compose_f64: each finite field times its unit by the rule of C18, summed (C01), negated for a *)
(* negative sign.  Where a partial sum leaves the range the statements do not fix the order of summation,  *)
(* and only a canonical value is required.                                                                 *)
ComposeUnits == <<7, 6, 5, 4, 3, 2, 1>>
RECURSIVE PartialSums(_, _, _)
PartialSums(f, k, acc) == IF k > 7 THEN <<>> ELSE
     LET nxt == B!Add(acc, F64TimesUnit(f[k], ComposeUnits[k])) IN <<nxt>> \o PartialSums(f, k + 1, nxt)
TrComposeF64 == IsOp("compose_f64") /\ KeepE /\ KeepS /\ KeepW /\ IsDur(E.res)
               /\ d' = DV(E.res) /\ M!Canonical(<<E.res.c, Mg(E.res.n)>>) /\ out' = <<"dur", d'>>
               /\ ((\A k \in 1..7 : E.f[k].k = "fin") =>
                    LET ps == PartialSums(E.f, 1, B!Zero) IN
                      (\A k \in 1..7 : M!InRange(ps[k])) => d' = (IF E.sign < 0 THEN M!DNeg(ps[7]) ELSE ps[7]))
(* Unit::in_seconds is the unit's factor in seconds as the nearest double; from_seconds its reciprocal (one *)
(* more rounding: within one ulp, judged as 2 ulp of the next power of two)                                *)
TrUnitConsts == IsOp("unit_consts") /\ KeepAll /\ UNCHANGED sw /\ IsFin(E.res.in_s) /\ IsFin(E.res.from_s)
               /\ LET r == Dy!RN53(Ur[E.u].m, Ur[4].m) IN
                    /\ ~E.res.in_s.neg /\ B!MulMag(E.res.in_s.m, B!Pow2Mag(IF E.res.in_s.e > r[2] THEN E.res.in_s.e - r[2] ELSE 0))
                                         = B!MulMag(r[1], B!Pow2Mag(IF r[2] > E.res.in_s.e THEN r[2] - E.res.in_s.e ELSE 0))
                    /\ Dy!WithinUlps(E.res.from_s, Ur[4], Ur[E.u].m, <<>>, 1)

(* JD / MJD constructors in the GNSS scales: a canonical value in that scale (their meaning is the library's) *)
TrFromViewAny == IsOp("from_view_any") /\ KeepD /\ KeepS /\ KeepW /\ UNCHANGED sw /\ IsEp(E.res) /\ IsFin(E.x)
               /\ e' = EV(E.res) /\ e'.ts = E.ts /\ M!Canonical(<<E.res.c, Mg(E.res.n)>>) /\ eout' = <<"epoch", e'>>

(* C20: day of year *)
YearStart(ts, y) == X!FromFieldsRaw(ts, y, 1, 1, 0, 0, 0, 0)
TrDoy == IsOp("doy") /\ KeepAll /\ Has(E.res, "year") /\
      LET f == X!Fields(e.ts, e.v)
          inyear == B!Sub(e.v, YearStart(e.ts, f[1])) IN
        /\ E.res.year = f[1]
        /\ DurIs(E.res.in_year, inyear)
        /\ IsFin(E.res.doy) /\ Dy!WithinUlps(E.res.doy, B!Add(inyear, Ur[7]), Ur[7].m, Ur[7].m, 4)
        /\ IsFin(E.res.doy2) /\ E.res.doy2 = E.res.doy /\ E.res.year2 = E.res.year
TrFromDoy == IsOp("from_doy") /\ KeepD /\ KeepS /\ KeepW /\ UNCHANGED sw /\ IsEp(E.res) /\ IsFin(E.days)
               /\ e' = EV(E.res) /\ e'.ts = E.ts /\ eout' = <<"epoch", e'>>
               /\ LET x == E.days
                       s == IF x.e < 0 THEN -x.e ELSE 0
                       exact == B!Add(B!Mul(B!Sub(YearStart(E.ts, E.y), Ur[7]), B!Pow2(s)),
                                      B!Mk(x.neg, B!MulMag(B!MulMag(x.m, Ur[7].m), B!Pow2Mag(s + x.e))))
                       tol == B!AddMag(Dy!Shr(B!MulMag(B!MulSmallMag(B!MulMag(x.m, B!Pow2Mag(s + x.e)), 4), Ur[7].m), 52)[1], B!Pow2Mag(s + 1))
                   IN  B!CmpMag(B!Sub(B!Mul(e'.v, B!Pow2(s)), exact).m, tol) <= 0

(* C10: numeric forms JD | MJD | SEC <float> <scale>: the string's number is logged as the double the *)
(* harness formatted, so the judgement is that of the constructor, to float precision               *)
TrParseNumeric == IsOp("parse_numeric") /\ KeepD /\ KeepS /\ KeepW /\ UNCHANGED sw /\ IsFin(E.x)
               /\ (IsEp(E.res) \/ Has(E.res, "err"))
               /\ (E.must => IsEp(E.res))
               /\ e' = (IF IsEp(E.res) THEN EV(E.res) ELSE e) /\ eout' = <<"parsed", IsEp(E.res)>>
               /\ ((IsEp(E.res) /\ E.must) => (e'.ts = E.ts /\ FromViewOK(E.x, E.u, ViewOffsetIn(E.view, E.ts), e'.v)))

(* F1 through Duration * f64: the product is taken of the wrong count *)
Dev_F1F ==
  /\ Open("F1") /\ IsOp("mul_f64") /\ KeepE /\ KeepS /\ KeepW /\ IsDur(E.res) /\ IsFin(E.x) /\ M!F1Class(d)
  /\ d' = DV(E.res) /\ out' = <<"dur", d'>>
  /\ ~ProdNear(d, E.x, d')
  /\ LET f1 == M!F1Total(d)
         pr == B!Mk(f1.neg # E.x.neg, Dy!TruncMag(B!MulMag(f1.m, E.x.m), E.x.e)) IN
       IF M!InRange(pr) THEN ProdNear(f1, E.x, d') ELSE d' = M!Clamp(pr)      \* (the wrong count may saturate)
  /\ Known("F1")

(* F27 through the UTC views *)
Dev_F27V ==
  /\ IsOpIn({"view_dur", "view_f64"}) /\ E.to = X!UTC /\ F27Applies(e) /\ KeepAll /\ UNCHANGED sw
  /\ LET x == B!Add(F27Utc(e), ViewOffset(E.view)) IN
        IF E.op = "view_dur" THEN DurIs(E.res, x) ELSE (IsFin(E.res) /\ Dy!WithinUlps(E.res, x, Ur[E.u].m, Ur[4].m, 4))
  /\ ~(\E y \in ViewVals(E.view, E.to) : IF E.op = "view_dur" THEN DurIs(E.res, y) ELSE Dy!WithinUlps(E.res, y, Ur[E.u].m, Ur[4].m, 4))
  /\ Known("F27")

(* C07: dynamical scales.  The conversions themselves are judged by TrToScale / TrToDur through *)
(* ConvAny (closed form +/- 30 ns).  Round trip: uniform -> ET|TDB -> back within 20 ns.           *)
TrRoundTrip == IsOp("round_trip") /\ KeepAll /\ UNCHANGED sw /\ IsEp(E.res) /\ E.res.ts = e.ts
               /\ B!Le(B!Abs(B!Sub(DV(E.res), e.v)), B!FromInt(20))
(* the ET / TDB accessors: the count since J2000 is an admissible conversion; the JDE duration is that   *)
(* count + J2000 + 2 415 020.5 days exactly; every float view is that duration within a few ulp          *)
TrDynView == IsOp("dyn_view") /\ KeepAll /\ UNCHANGED sw /\ IsDur(E.dur) /\ IsDur(E.jde)
               /\ X!ConvAny(e, E.to, X!Ep(E.to, DV(E.dur))) /\ M!Canonical(<<E.dur.c, Mg(E.dur.n)>>)
               /\ LET base == DV(E.dur)
                       jde  == B!Add(B!Add(base, J2000Ns), ViewOffset("jde")) IN
                    /\ (M!InRange(jde) => DurIs(E.jde, jde))
                    /\ \A i \in 1..Len(E.views) :
                         LET vw == E.views[i] IN
                           IsFin(vw.v) /\ Dy!WithinUlps(vw.v, IF vw.b = 0 THEN base ELSE DV(E.jde), Ur[vw.u].m, Ur[4].m, 4)
(* sorted sweep: instants more than 100 ns apart keep their order through the conversion *)
TrSweepDyn == IsOp("sweep_dyn") /\ KeepAll /\ IsEp(E.res) /\ E.res.ts = E.to
               /\ X!ConvAny(EV(E.src), E.to, EV(E.res))
               /\ (IF E.first THEN TRUE
                   ELSE (B!Lt(B!Add(sw[1], B!FromInt(100)), DV(E.src)) => B!Lt(sw[2], DV(E.res))))
               /\ sw' = <<DV(E.src), DV(E.res)>>

FloatNext ==
  \/ TrRoundTrip \/ TrSweepDyn \/ TrDynView
  \/ Dev_F27V
  \/ Dev_F1F
  \/ TrF64Unit \/ TrMulF64 \/ (TrToUnit /\ UNCHANGED sw) \/ TrSweepUnit
  \/ ((TrViewDur \/ TrViewF64 \/ TrDoy) /\ UNCHANGED sw) \/ TrFromView \/ TrFromDoy \/ TrParseNumeric
  \/ TrFromUnixDur \/ TrComposeF64 \/ TrUnitConsts \/ TrFromViewAny

-----------------------------------------------------------------------------
(* Extras: behaviour beyond the listed properties (spec/Extras.tla); run by `bin/check EXTRAS` only *)
TrXApprox == IsOp("x_approx") /\ KeepE /\ KeepS /\ KeepW /\ IsDur(E.res)
               /\ d' = DV(E.res) /\ d' \in X!ApproxSet(d) /\ out' = <<"dur", d'>>
TrXConsts == IsOp("x_consts") /\ KeepAll /\ UNCHANGED sw
               /\ DurIs(E.zero, B!Zero) /\ DurIs(E.max, M!MaxV) /\ DurIs(E.min, M!MinV)
               /\ DurIs(E.eps, B!FromInt(1)) /\ DurIs(E.minpos, B!FromInt(1)) /\ DurIs(E.minneg, B!FromInt(-1))
               /\ DurIs(E.dflt, B!Zero)
TrXUnitU8 == IsOp("x_unit_u8") /\ KeepAll /\ UNCHANGED sw /\ E.unit = X!UnitOfU8(E.b) /\ E.back = X!U8OfUnit(E.unit)
TrXScaleU8 == IsOp("x_scale_u8") /\ KeepAll /\ UNCHANGED sw /\ E.ts = X!ScaleOfU8(E.b) /\ E.back = E.ts
               /\ E.gnss = X!IsGnss(E.ts) /\ E.leap = X!UsesLeapSeconds(E.ts)
               /\ E.name = X!ScaleName(E.ts) /\ E.rinex = X!RinexName(E.ts)
TrXWithHms == IsOp("x_with_hms") /\ KeepD /\ KeepS /\ KeepW /\ UNCHANGED sw /\ IsEp(E.res)
               /\ e' = X!Ep(e.ts, X!WithHms(e.v, Mg(E.h), Mg(E.mi), Mg(E.s), E.strict)) /\ EpIs(E.res, e') /\ eout' = <<"epoch", e'>>
TrXWithTimeFrom == IsOp("x_with_time_from") /\ KeepD /\ KeepS /\ KeepW /\ UNCHANGED sw /\ IsEp(E.res)
               /\ \E oc \in {X!Ep(e.ts, x) : x \in X!ConvSet(EV(E.o), e.ts)} :
                     /\ e' = X!Ep(e.ts, IF E.mode = "time" THEN X!WithTimeFrom(e.v, oc.v)
                                        ELSE LET y == M!Decompose(oc.v) IN X!WithHms(e.v, y[3], y[4], y[5], E.mode = "hms_strict"))
                     /\ EpIs(E.res, e') /\ eout' = <<"epoch", e'>>
(* q * Freq for an i64 or f64 q: the period K / q as the nearest double, truncated toward zero *)
TrXFreq == IsOp("x_freq") /\ KeepE /\ KeepS /\ KeepW /\ IsDur(E.res) /\ E.q.k = "fin" /\ E.q.m # <<>>
               /\ LET k  == X!FreqK(E.f)
                       s  == IF E.q.e < 0 THEN -E.q.e ELSE 0
                       \* K / (m * 2^e) = (K * 2^s') / (m * 2^(s'+e))
                       r  == Dy!RN53(B!MulMag(k.m, B!Pow2Mag(s)), B!MulMag(E.q.m, B!Pow2Mag(s + E.q.e)))
                       v  == M!Clamp(B!Mk(E.q.neg, Dy!TruncMag(r[1], r[2])))
                   IN  d' = v /\ DurIs(E.res, d') /\ out' = <<"dur", d'>>
(* TimeSeries::next_back (shares the cursor with next) and len() (an f64 estimate: within one of the count) *)
TrXNextBack == IsOp("x_next_back") /\ KeepD /\ KeepE /\ KeepW /\ X!SNextBack /\ ItemIs(E.res, sout')
TrXLen == IsOp("x_len") /\ KeepAll /\ UNCHANGED sw
               /\ (ser.k = 0 => (E.len - X!CountOf(ser)) \in {-1, 0, 1})
               /\ E.lo = E.len /\ E.hi = E.len + 1
(* next_weekday_at_midnight / noon: next()/previous() followed by with_hms_strict *)
TrXNextAt == IsOp("x_next_at") /\ KeepD /\ KeepS /\ KeepW /\ UNCHANGED sw /\ IsEp(E.res) /\
             \E rc \in ConvCands(X!TAI) :
                LET k0 == IF E.next THEN (E.w - X!WeekdayIn(X!TAI, rc.v) + 7) % 7 ELSE (X!WeekdayIn(X!TAI, rc.v) - E.w + 7) % 7
                    k  == IF k0 = 0 THEN 7 ELSE k0
                    moved == IF E.next THEN M!DAdd(e.v, B!Mul(B!FromInt(k), Ur[7])) ELSE M!DSub(e.v, B!Mul(B!FromInt(k), Ur[7]))
                IN  /\ e' = X!Ep(e.ts, X!WithHms(moved, Mg(E.h), B!Zero, B!Zero, TRUE))
                    /\ EpIs(E.res, e') /\ eout' = <<"epoch", e'>>
(* month and weekday names *)
TrXMonth == IsOp("x_month") /\ KeepAll /\ UNCHANGED sw
               /\ E.m = X!MonthOfU8(E.b) /\ E.long = X!MonthLongC[E.m] /\ E.short = X!First3(X!MonthLongC[E.m])
               /\ E.back_long = E.m /\ E.back_short = E.m /\ E.back_upper = E.m
TrXWeekdayName == IsOp("x_wdname") /\ KeepAll /\ UNCHANGED sw
               /\ E.long = X!WeekdayLongC[E.w + 1] /\ E.short = X!First3(X!WeekdayLongC[E.w + 1]) /\ E.back_long = E.w /\ E.back_short = E.w
(* Display of the current series *)
TrXSeriesText == IsOp("x_series_text") /\ KeepAll /\ UNCHANGED sw /\ Has(E.res, "v")
               /\ ((ser.k = 0 /\ X!Fields(ser.start.ts, ser.start.v)[1] \in 1..9999
                      /\ X!Fields(ser.start.ts, M!DAdd(ser.start.v, ser.span))[1] \in 1..9999) => E.res.v = X!SeriesText(ser))
(* Hash agrees with identity of the value: two durations (epochs) built in different ways with the same count *)
(* (and scale) hash alike                                                                                     *)
TrXHash == IsOp("x_hash") /\ KeepAll /\ UNCHANGED sw
               /\ (DV(E.a) = DV(E.b) => E.same_dur)
               /\ ((DV(E.a) = DV(E.b) /\ E.ta = E.tb) => E.same_epoch)
(* iteration over a leap second provider with next() and next_back() mixed *)
TrXLeapIter == IsOp("x_leap_iter") /\ KeepAll /\ UNCHANGED sw /\ Has(E.res, "v") /\ E.res.v = X!LeapIter(E.calls, E.len)
(* Polynomial::correction_duration for a constant-offset polynomial and Epoch::precise_timescale_conversion:   *)
(* the stored constant is the one given (from_constant_offset) ; its value in float seconds is within the       *)
(* resolution of C18; the correction is that float times one second by the rule of C18 (rate and acceleration   *)
(* contribute exact zeros); the result is the plain conversion minus (forward) or plus (backward) the           *)
(* correction, and an error when the target is the scale the epoch is already in.                               *)
TrXPrecise == IsOp("x_precise") /\ KeepAll /\ UNCHANGED sw /\ IsDur(E.stored) /\ IsFin(E.secs) /\ IsDur(E.corr)
               /\ DV(E.stored) = DV(E.constant)
               /\ Dy!WithinUlps(E.secs, DV(E.stored), Ur[4].m, Ur[4].m, 4) /\ F64SignOK(E.secs, DV(E.stored))
               /\ DV(E.corr) = F64TimesUnit(E.secs, 4)
               /\ IF E.to = e.ts THEN Has(E.res, "err")
                  ELSE /\ IsEp(E.res) /\ E.res.ts = E.to
                       /\ \E rc \in ConvCands(E.to) :
                            DV(E.res) = (IF E.forward THEN M!DSub(rc.v, DV(E.corr)) ELSE M!DAdd(rc.v, DV(E.corr)))
Dev_F1X == /\ Open("F1") /\ IsOp("x_approx") /\ KeepE /\ KeepS /\ KeepW /\ IsDur(E.res)
           /\ d' = M!F1Round(d, Ur[X!LargestUnit(d)]) /\ d' \notin X!ApproxSet(d) /\ DurIs(E.res, d') /\ out' = <<"dur", d'>>
           /\ Known("F1")
ExtrasNext ==
  \/ Dev_F1X
  \/ TrXApprox \/ TrXConsts \/ TrXUnitU8 \/ TrXScaleU8 \/ TrXWithHms \/ TrXWithTimeFrom \/ TrXFreq
  \/ TrXNextBack \/ TrXLen \/ TrXNextAt
  \/ TrXPrecise \/ TrXMonth \/ TrXWeekdayName \/ TrXSeriesText \/ TrXHash \/ TrXLeapIter

-----------------------------------------------------------------------------
(* The system machine (Hifitime.tla): calls whose operand is the content of another register.   *)
(* Each recorded call is judged by the action of the system specification; what the action       *)
(* leaves unlogged (the operand re-expressed in another scale) is inferred from the candidates.  *)
TrHDiff == IsOp("h_diff") /\ UNCHANGED sw /\ IsDur(E.res) /\
           LET f == EV(E.f)
               cands == {H!Ep(e.ts, x) : x \in (X!ConvSet(f, e.ts) \cup {B!Sub(e.v, DV(E.res))})}
           IN  \E fc \in cands : H!HDiff(f, fc) /\ DurIs(E.res, d')
TrHAddReg   == IsOp("h_add_reg")   /\ UNCHANGED sw /\ H!HAddReg   /\ EpIs(E.res, e')
TrHSubReg   == IsOp("h_sub_reg")   /\ UNCHANGED sw /\ H!HSubReg   /\ EpIs(E.res, e')
TrHFloorReg == IsOp("h_floor_reg") /\ UNCHANGED sw /\ H!HFloorReg /\ EpIs(E.res, e')
TrHCeilReg  == IsOp("h_ceil_reg")  /\ UNCHANGED sw /\ IsEp(E.res) /\ H!HCeilReg(DV(E.res))  /\ EpIs(E.res, e')
TrHRoundReg == IsOp("h_round_reg") /\ UNCHANGED sw /\ IsEp(E.res) /\ H!HRoundReg(DV(E.res)) /\ EpIs(E.res, e')
TrHSeries   == IsOp("h_series")    /\ UNCHANGED sw /\ Has(E.res, "v") /\ H!HSeries(B!ToInt(Big(E.n)), E.incl)
TrHTake     == IsOp("h_take")      /\ UNCHANGED sw /\ H!HTake /\ ItemIs(E.res, sout')
TrHWdOf     == IsOp("h_wd_of")     /\ UNCHANGED sw /\ Has(E.res, "v") /\
                 \E rc \in ConvCands(X!TAI) : H!HWeekdayOf(rc) /\ WdIs(E.res, w')
TrHNextW    == IsOp("h_next_w")    /\ UNCHANGED sw /\ \E rc \in ConvCands(X!TAI) : H!HNextW(rc) /\ EpIs(E.res, e')
TrHPrevW    == IsOp("h_prev_w")    /\ UNCHANGED sw /\ \E rc \in ConvCands(X!TAI) : H!HPrevW(rc) /\ EpIs(E.res, e')
TrHDaysTo   == IsOp("h_days_to")   /\ UNCHANGED sw /\ H!HDaysTo(E.b) /\ DurIs(E.res, d')
TrHTowOf    == IsOp("h_tow_of")    /\ UNCHANGED sw /\ Has(E.res, "w") /\ H!HTowOf
                 /\ Big(E.res.w) = eout'[2][1] /\ Big(E.res.n) = eout'[2][2] /\ DurIs(E.res.d, d')
TrHFromTow  == IsOp("h_from_tow")  /\ UNCHANGED sw /\ H!HFromTow(Big(E.wk)) /\ EpIs(E.res, e')
(* F1 through floor / ceil / round with the step taken from the register *)
Dev_F1H ==
  /\ Open("F1") /\ UNCHANGED sw /\ KeepD /\ KeepS /\ KeepW /\ l <= Len(Rec)
  /\ E.op \in {"h_floor_reg", "h_ceil_reg", "h_round_reg"} /\ IsEp(E.res)
  /\ \/ /\ IsOp("h_floor_reg") /\ (M!F1Class(e.v) \/ M!F1Class(d))
          /\ e' = X!Ep(e.ts, M!F1Floor(e.v, d)) /\ e'.v # M!Floor(e.v, d)
      \/ /\ IsOp("h_ceil_reg") /\ (M!F1Class(e.v) \/ M!F1Class(d) \/ M!F1Class(M!F1Floor(e.v, d)))
          /\ e' = X!Ep(e.ts, M!F1Ceil(e.v, d)) /\ e'.v \notin M!CeilSet(e.v, d)
      \/ /\ IsOp("h_round_reg") /\ (M!F1Class(e.v) \/ M!F1Class(d) \/ M!F1Class(M!F1Floor(e.v, d)))
          /\ e' = X!Ep(e.ts, M!F1Round(e.v, d)) /\ e'.v \notin M!RoundSet(e.v, d)
  /\ EpIs(E.res, e') /\ eout' = <<"epoch", e'>>
  /\ Known("F1")
SystemNext ==
  \/ TrHDiff \/ TrHAddReg \/ TrHSubReg \/ TrHFloorReg \/ TrHCeilReg \/ TrHRoundReg \/ TrHSeries \/ TrHTake
  \/ TrHWdOf \/ TrHNextW \/ TrHPrevW \/ TrHDaysTo \/ TrHTowOf \/ TrHFromTow \/ Dev_F1H

-----------------------------------------------------------------------------
TraceInit == l = Start /\ M!DInit /\ X!EInit /\ sw = B!Zero /\ X!SInit /\ W!WInit
TraceNext == \/ (DurationNext /\ KeepE /\ KeepS /\ KeepW)
             \/ EpochNext
             \/ (SeriesNext /\ KeepD /\ KeepE /\ KeepW)
             \/ (WeekdayNext /\ KeepD /\ KeepE /\ KeepS)
             \/ TextNext
             \/ FloatNext
             \/ ExtrasNext
             \/ SystemNext
TraceSpec == TraceInit /\ [][TraceNext]_vars

(* invariants evaluated at every step of every validated trace *)
TraceInv  == M!InRange(d)

(* all lines consumed?  prints where validation stopped otherwise *)
TraceAccepted ==
  LET n == TLCGet("stats").diameter + Start - 2 IN
    IF n = Len(Rec) THEN PrintT(<<"ACCEPTED", Len(Rec)>>)
    ELSE PrintT(<<"STUCK", n + 1, Len(Rec)>>) /\ FALSE
=============================================================================
