------------------------------- MODULE Trace -------------------------------
(***************************************************************************)
(* Trace validation (L3): is a recorded execution of the Rust code a        *)
(* behaviour of the specification?                                          *)
(*                                                                         *)
(* The harness (harness/src) drives the real hifitime API as a register     *)
(* machine and writes one JSON line per public call, after the call         *)
(* returned (the linearization point of a sequential library; the panic     *)
(* path is recorded too): operation name, arguments, full projected result. *)
(* Each trace action below is                                               *)
(*     IsOp(name) /\ <the specification's action, arguments bound to the    *)
(*                    logged ones> /\ <logged result = specified result>    *)
(* and is therefore enabled only if the recorded call is explained by the   *)
(* specification instantiated at the REAL constants (BigInt carrier).       *)
(* Acceptance: every line consumed (POSTCONDITION on the diameter).         *)
(***************************************************************************)
EXTENDS Integers, Sequences, FiniteSets, TLC, Json, IOUtils, Real

Rec == ndJsonDeserialize(IOEnv.TRACE)
Start == IF "TRACE_START" \in DOMAIN IOEnv THEN atoi(IOEnv.TRACE_START) ELSE 1

VARIABLES l,        \* next line of the trace
          d, out    \* Duration machine (DurationMachine)

vars == <<l, d, out>>

M == INSTANCE DurationMachine WITH
       NPC <- NPCr, CMIN <- -32768, CMAX <- 32767,
       N <- B!FromInt, I <- B!ToInt,
       Add <- B!Add, Sub <- B!Sub, Mul <- B!Mul, QuotT <- B!QuotT,
       DivF <- B!DivF, ModF <- B!ModF, Lt <- B!Lt, Le <- B!Le, U <- Ur

-----------------------------------------------------------------------------
E == Rec[l]
IsOp(o)      == l <= Len(Rec) /\ E.op = o /\ l' = l + 1
IsOpIn(S)    == l <= Len(Rec) /\ E.op \in S /\ l' = l + 1
Has(r, f)    == f \in DOMAIN r

(* logged durations are raw to_parts() pairs *)
DV(p)        == M!Val(p.c, Mg(p.n))
IsDur(r)     == Has(r, "c") /\ Has(r, "n")
DurIs(r, v)  == IsDur(r) /\ M!Parts(v) = <<r.c, Mg(r.n)>>
BigIs(r, v)  == Has(r, "m") /\ Big(r) = v

-----------------------------------------------------------------------------
(* Duration machine: C01, C02, C03, C11 (decomposition), C14 *)

TrLoad      == IsOp("load")       /\ M!MLoad(E.c, Mg(E.n))          /\ DurIs(E.res, d')
TrFromTotal == IsOp("from_total") /\ M!MFromTotal(Big(E.x))          /\ DurIs(E.res, d')
(* q * Unit::X, Unit::X * q, q.days() ...: an i64 count of a unit *)
TrFromUnit  == IsOpIn({"unit_mul", "mul_unit", "unit_trait"})
                                  /\ M!MFromUnit(Big(E.q), E.u)      /\ DurIs(E.res, d')
TrAdd       == IsOpIn({"add", "add_assign"}) /\ M!MAdd(DV(E.b))      /\ DurIs(E.res, d')
TrSub       == IsOpIn({"sub", "sub_assign"}) /\ M!MSub(DV(E.b))      /\ DurIs(E.res, d')
TrAddUnit   == IsOpIn({"add_unit", "add_assign_unit"}) /\ M!MAdd(Ur[E.u]) /\ DurIs(E.res, d')
TrSubUnit   == IsOpIn({"sub_unit", "sub_assign_unit"}) /\ M!MSub(Ur[E.u]) /\ DurIs(E.res, d')
TrNeg       == IsOp("neg")        /\ M!MNeg                          /\ DurIs(E.res, d')
TrAbs       == IsOp("abs")        /\ M!MAbs                          /\ DurIs(E.res, d')
TrMulI      == IsOpIn({"mul_i64", "i64_mul"}) /\ M!MMulI(Big(E.q))   /\ DurIs(E.res, d')
TrDivI      == IsOp("div_i64")    /\ M!MDivI(Big(E.q))               /\ DurIs(E.res, d')
TrFloor     == IsOp("floor")      /\ M!MFloor(DV(E.s))               /\ DurIs(E.res, d')
TrCeil      == IsOp("ceil")       /\ M!MCeil(DV(E.s))                /\ DurIs(E.res, d')
TrRound     == IsOp("round")      /\ M!MRound(DV(E.s))               /\ DurIs(E.res, d')

(* observers *)
TrParts     == IsOp("parts") /\ M!MParts /\ IsDur(E.res) /\ out'[2] = <<E.res.c, Mg(E.res.n)>>
TrTotal     == IsOp("total") /\ M!MTotal /\ BigIs(E.res, out'[2])
TrSignum    == IsOp("signum") /\ UNCHANGED <<d, out>> /\ E.res = M!DSignum(d)
                 /\ E.neg = (M!DSignum(d) < 0)

(* from_truncated_nanoseconds(i64) *)
TrFromTrunc == IsOp("from_trunc") /\ M!MFromTotal(Big(E.x)) /\ DurIs(E.res, d')
(* 64-bit accessors (Appendix A.1): never a different number; Ok(v) within +/- 2 centuries;  *)
(* Err when v does not fit an i64; either in between.                                        *)
Within2C(v) == B!Le(B!Abs(v), B!MulInt(NPCr, 2))
Fits64(v)   == B!Le(I64MIN, v) /\ B!Le(v, I64MAX)
TrTryTrunc  == IsOp("try_trunc") /\ UNCHANGED <<d, out>>
                 /\ \/ Has(E.res, "ok")  /\ Big(E.res.ok) = d /\ Fits64(d)
                    \/ Has(E.res, "err") /\ ~Within2C(d)
TrTrunc     == IsOp("trunc") /\ UNCHANGED <<d, out>> /\ Has(E.res, "m")
                 /\ \/ Big(E.res) = d /\ Fits64(d)
                    \/ ~Within2C(d) /\ Big(E.res) = (IF B!Lt(d, B!Zero) THEN I64MIN ELSE I64MAX)

(* comparison of the register with an operand: every operator at once *)
TrCmp == IsOp("cmp") /\ M!MCmp(DV(E.b)) /\
         LET c == out'[2]  q == out'[3]  r == E.res  b == DV(E.b) IN
           /\ r.cmp = c /\ r.pcmp = c
           /\ r.lt = (c < 0) /\ r.le = (c <= 0) /\ r.gt = (c > 0) /\ r.ge = (c >= 0)
           /\ r.eq = q /\ r.ne = ~q
           /\ DurIs(r.min, M!DMin(d, b)) /\ DurIs(r.max, M!DMax(d, b))
(* comparison with a Unit *)
TrCmpUnit == IsOp("cmp_unit") /\ M!MCmp(Ur[E.u]) /\
         LET c == out'[2]  q == out'[3]  r == E.res IN
           /\ r.pcmp = c /\ r.lt = (c < 0) /\ r.gt = (c > 0) /\ r.eq = q
(* slice::sort: the output is the input ordered by value *)
IsSortedBy(xs) == \A i \in 1..(Len(xs) - 1) : B!Le(DV(xs[i]), DV(xs[i + 1]))
SameBag(xs, ys) == /\ Len(xs) = Len(ys)
                   /\ \A i \in 1..Len(xs) :
                        Cardinality({j \in 1..Len(xs) : xs[j] = xs[i]}) = Cardinality({j \in 1..Len(ys) : ys[j] = xs[i]})
TrSort == IsOp("sort") /\ UNCHANGED <<d, out>> /\ Has(E, "res") /\ Len(E.res) = Len(E.xs)
            /\ IsSortedBy(E.res) /\ SameBag(E.xs, E.res)

(* decomposition and composition *)
TrDecompose == IsOp("decompose") /\ M!MDecompose /\
         LET x == out'[2]  r == E.res IN
           /\ Len(r) = 8 /\ r[1] = x[1]
           /\ \A k \in 2..8 : Mg(r[k]) = x[k]
TrCompose == IsOp("compose") /\
         d' = M!Compose(E.sign, Mg(E.f[1]), Mg(E.f[2]), Mg(E.f[3]), Mg(E.f[4]), Mg(E.f[5]), Mg(E.f[6]), Mg(E.f[7]))
           /\ out' = <<"dur", d'>> /\ DurIs(E.res, d')
(* std::time::Duration conversions: secs + subsec nanos *)
TrFromStd == IsOp("from_std") /\ M!MFromTotal(B!Add(B!Mul(Mg(E.secs), Ur[4]), B!FromInt(E.nanos))) /\ DurIs(E.res, d')
TrIntoStd == IsOp("into_std") /\ UNCHANGED <<d, out>> /\
         LET v == IF B!Lt(d, B!Zero) THEN B!Zero ELSE d IN
           /\ Mg(E.res.secs) = B!DivF(v, Ur[4]) /\ B!FromInt(E.res.nanos) = B!ModF(v, Ur[4])

-----------------------------------------------------------------------------
(* Known deviations (known_findings.json, status "open").  A deviation action accepts exactly   *)
(* the recorded wrong behaviour of a listed finding - the input class and the wrong output -    *)
(* prints KNOWN and resynchronises on the observed result.  Anything else is not explained.     *)
KF == JsonDeserialize(IOEnv.KNOWN_FILE)
Open(id) == \E i \in 1..Len(KF.findings) : KF.findings[i].id = id /\ KF.findings[i].status = "open"
Known(id) == PrintT(<<"KNOWN", id, l>>)

(* F1: total_nanoseconds() and what is built on it, for operands below -1 century with a        *)
(* non-zero nanosecond field                                                                    *)
Dev_F1 ==
  /\ Open("F1")
  /\ \/ /\ IsOp("total") /\ M!F1Class(d) /\ BigIs(E.res, M!F1Total(d)) /\ UNCHANGED d
          /\ out' = <<"int", M!F1Total(d)>>
      \/ /\ IsOpIn({"mul_i64", "i64_mul"})
          /\ (M!F1Class(d) \/ M!F1Class(M!Clamp(Big(E.q))))
          /\ d' = M!F1MulI(d, Big(E.q)) /\ d' # M!DMulI(d, Big(E.q)) /\ DurIs(E.res, d') /\ out' = <<"dur", d'>>
      \/ /\ IsOp("div_i64")
          /\ (M!F1Class(d) \/ M!F1Class(M!Clamp(Big(E.q))))
          /\ d' = M!F1DivI(d, Big(E.q)) /\ d' # M!DDivI(d, Big(E.q)) /\ DurIs(E.res, d') /\ out' = <<"dur", d'>>
      \/ /\ IsOp("floor") /\ (M!F1Class(d) \/ M!F1Class(DV(E.s)))
          /\ d' = M!F1Floor(d, DV(E.s)) /\ d' # M!Floor(d, DV(E.s)) /\ DurIs(E.res, d') /\ out' = <<"dur", d'>>
      \/ /\ IsOp("ceil") /\ (M!F1Class(d) \/ M!F1Class(DV(E.s)) \/ M!F1Class(M!F1Floor(d, DV(E.s))))
          /\ d' = M!F1Ceil(d, DV(E.s)) /\ d' \notin M!CeilSet(d, DV(E.s)) /\ DurIs(E.res, d') /\ out' = <<"dur", d'>>
      \/ /\ IsOp("round") /\ (M!F1Class(d) \/ M!F1Class(DV(E.s)) \/ M!F1Class(M!F1Floor(d, DV(E.s))))
          /\ d' = M!F1Round(d, DV(E.s)) /\ d' \notin M!RoundSet(d, DV(E.s)) /\ DurIs(E.res, d') /\ out' = <<"dur", d'>>
  /\ Known("F1")

DurationNext ==
  \/ Dev_F1
  \/ TrLoad \/ TrFromTotal \/ TrFromUnit \/ TrAdd \/ TrSub \/ TrAddUnit \/ TrSubUnit
  \/ TrNeg \/ TrAbs \/ TrMulI \/ TrDivI \/ TrFloor \/ TrCeil \/ TrRound
  \/ TrParts \/ TrTotal \/ TrSignum \/ TrFromTrunc \/ TrTryTrunc \/ TrTrunc
  \/ TrCmp \/ TrCmpUnit \/ TrSort \/ TrDecompose \/ TrCompose \/ TrFromStd \/ TrIntoStd

-----------------------------------------------------------------------------
TraceInit == l = Start /\ M!DInit
TraceNext == DurationNext
TraceSpec == TraceInit /\ [][TraceNext]_vars

(* invariants evaluated at every step of every validated trace *)
TraceInv  == M!InRange(d)

(* all lines consumed?  prints where validation stopped otherwise *)
TraceAccepted ==
  LET n == TLCGet("stats").diameter + Start - 2 IN
    IF n = Len(Rec) THEN PrintT(<<"ACCEPTED", Len(Rec)>>)
    ELSE PrintT(<<"STUCK", n + 1, Len(Rec)>>) /\ FALSE
=============================================================================
