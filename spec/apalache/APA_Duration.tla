----------------------------- MODULE APA_Duration -----------------------------
(***************************************************************************)
(* L1' (Apalache, symbolic): the implementation-shaped transcription of the *)
(* Rust Duration algorithms (the text of MC_DurationImpl, typed) refines    *)
(* the abstract definitions for ALL inputs at the REAL constants:           *)
(* any i16 century with any u64 nanosecond field, for both operands.        *)
(* One SMT query per obligation:                                            *)
(*   apalache-mc check --init=Init --inv=<Inv> --length=0 APA_Duration.tla  *)
(* Apalache cannot take the operator-constant instantiation of the          *)
(* carrier-parametric modules, so Clamp/Val/Parts/DEq are restated here on   *)
(* native integers (ten lines); MC_DurationImpl checks the same text against *)
(* DurationCore itself on the scaled space.                                 *)
(***************************************************************************)
EXTENDS Integers

NPC  == 3155760000000000000
CMIN == -32768
CMAX == 32767
UMAX == 18446744073709551615
MinV == CMIN * NPC
MaxV == (CMAX + 1) * NPC

VARIABLES
  \* @type: Int;
  ac,
  \* @type: Int;
  an,
  \* @type: Int;
  bc,
  \* @type: Int;
  bn

\* @type: (Int) => Int;
Clamp(x) == IF x < MinV THEN MinV ELSE IF x > MaxV THEN MaxV ELSE x
\* @type: (<<Int, Int>>) => Int;
Exact(p) == p[1] * NPC + p[2]
\* @type: (<<Int, Int>>) => Bool;
Canonical(p) == p[1] >= CMIN /\ p[1] <= CMAX /\ p[2] >= 0 /\ (p[2] < NPC \/ (p[1] = CMAX /\ p[2] = NPC))
\* @type: (Int) => Int;
AbsI(x) == IF x < 0 THEN -x ELSE x
\* @type: (Int, Int) => Bool;
DEq(a, b) == a = b \/ (a = -b /\ AbsI(a) < NPC)

NoneI == 100000000000000000000000
\* @type: (Int, Int) => Int;
CkAddC(a, b) == IF a + b >= CMIN /\ a + b <= CMAX THEN a + b ELSE NoneI
\* @type: (Int, Int) => Int;
CkSubC(a, b) == IF a - b >= CMIN /\ a - b <= CMAX THEN a - b ELSE NoneI
\* @type: (Int, Int) => Int;
CkAddN(a, b) == IF a + b <= UMAX THEN a + b ELSE NoneI
\* @type: (Int, Int) => Int;
CkSubN(a, b) == IF a - b >= 0 THEN a - b ELSE NoneI
\* @type: (Int, Int) => Int;
SatAddN(a, b) == IF a + b <= UMAX THEN a + b ELSE UMAX

\* @type: <<Int, Int>>;
MAXP == <<CMAX, NPC>>
\* @type: <<Int, Int>>;
MINP == <<CMIN, 0>>
\* @type: <<Int, Int>>;
NoneP == <<NoneI, 0>>

\* @type: (<<Int, Int>>) => <<Int, Int>>;
Normalize(p) ==
  LET c == p[1]  n == p[2]  extra == n \div NPC  rem == n % NPC IN
    IF extra > 0
    THEN IF c = CMAX
         THEN IF SatAddN(n, rem) > NPC THEN MAXP ELSE p
         ELSE IF p # MAXP /\ p # MINP
              THEN LET cc == CkAddC(c, extra) IN
                     IF cc # NoneI THEN <<cc, rem>> ELSE IF c >= 0 THEN MAXP ELSE MINP
              ELSE p
    ELSE p
\* @type: (Int) => <<Int, Int>>;
FromTotal(x) ==
  IF x = 0 THEN <<0, 0>>
  ELSE LET c == x \div NPC  r == x % NPC IN
         IF c > CMAX THEN MAXP ELSE IF c < CMIN THEN MINP ELSE Normalize(<<c, r>>)
\* @type: (<<Int, Int>>, <<Int, Int>>) => <<Int, Int>>;
ImplAdd(p0, q0) ==
  LET p == Normalize(p0)  q == Normalize(q0)  cc == CkAddC(p[1], q[1]) IN
    IF cc = NoneI
    THEN IF p[1] < 0 THEN FromTotal(Exact(p) + Exact(q)) ELSE MAXP
    ELSE LET nn == CkAddN(p[2], q[2]) IN
           IF nn # NoneI THEN Normalize(<<cc, nn>>)
           ELSE LET c2 == CkAddC(cc, q[1]) IN IF c2 = NoneI THEN MAXP ELSE Normalize(<<c2, p[2] + q[2]>>)
\* @type: (<<Int, Int>>, <<Int, Int>>) => <<Int, Int>>;
ImplSub(p0, q0) ==
  LET p == Normalize(p0)  q == Normalize(q0)  cc == CkSubC(p[1], q[1]) IN
    IF cc = NoneI THEN FromTotal(Exact(p) - Exact(q))
    ELSE LET nn == CkSubN(p[2], q[2]) IN
           IF nn # NoneI THEN Normalize(<<cc, nn>>)
           ELSE LET c1 == CkSubC(cc, 1) IN
                  IF c1 = NoneI THEN MINP ELSE Normalize(<<c1, p[2] + (NPC - q[2])>>)
\* @type: (<<Int, Int>>) => <<Int, Int>>;
ImplNeg(p) ==
  IF p = MINP THEN MAXP ELSE IF p = MAXP THEN MINP
  ELSE LET k == CkSubN(NPC, p[2]) IN IF k # NoneI THEN Normalize(<<-1 - p[1], k>>) ELSE NoneP
\* @type: (<<Int, Int>>, <<Int, Int>>) => Bool;
ImplEq(p, q) ==
  IF p[1] = q[1] THEN p[2] = q[2]
  ELSE IF (p[1] = -1 /\ q[1] = 0) \/ (p[1] = 0 /\ q[1] = -1)
       THEN IF p[1] < 0 THEN NPC - p[2] = q[2] ELSE NPC - q[2] = p[2]
       ELSE FALSE
\* @type: (<<Int, Int>>, <<Int, Int>>) => Bool;
ImplLt(p, q) == p[1] < q[1] \/ (p[1] = q[1] /\ p[2] < q[2])

Init == /\ ac \in CMIN..CMAX /\ bc \in CMIN..CMAX
        /\ an \in 0..UMAX /\ bn \in 0..UMAX
Next == UNCHANGED <<ac, an, bc, bn>>

\* @type: <<Int, Int>>;
A == <<ac, an>>
\* @type: <<Int, Int>>;
Bp == <<bc, bn>>
(* constructor: any (i16, u64) normalizes to the canonical form of the clamped exact count *)
InvFromParts == LET r == Normalize(A) IN Canonical(r) /\ Exact(r) = Clamp(Exact(A))
(* for canonical operands: add/sub/neg are the clamped exact results, never a panic *)
InvAdd == (Canonical(A) /\ Canonical(Bp)) =>
            LET r == ImplAdd(A, Bp) IN r # NoneP /\ Canonical(r) /\ Exact(r) = Clamp(Exact(A) + Exact(Bp))
InvSub == (Canonical(A) /\ Canonical(Bp)) =>
            LET r == ImplSub(A, Bp) IN r # NoneP /\ Canonical(r) /\ Exact(r) = Clamp(Exact(A) - Exact(Bp))
InvNeg == Canonical(A) => LET r == ImplNeg(A) IN r # NoneP /\ Canonical(r) /\ Exact(r) = Clamp(-Exact(A))
InvEq  == (Canonical(A) /\ Canonical(Bp)) => (ImplEq(A, Bp) <=> DEq(Exact(A), Exact(Bp)))
InvLt  == (Canonical(A) /\ Canonical(Bp)) => (ImplLt(A, Bp) <=> Exact(A) < Exact(Bp))

(* the algorithm as found (section 13.1): Apalache refutes it at the real constants *)
\* @type: (<<Int, Int>>, <<Int, Int>>) => <<Int, Int>>;
ImplSubOld(p0, q0) ==
  LET p == Normalize(p0)  q == Normalize(q0)  cc == CkSubC(p[1], q[1]) IN
    IF cc = NoneI THEN MINP
    ELSE LET nn == CkSubN(p[2], q[2]) IN
           IF nn # NoneI THEN Normalize(<<cc, nn>>)
           ELSE LET c1 == CkSubC(cc, 1) IN
                  IF c1 = NoneI THEN MINP ELSE Normalize(<<c1, p[2] + (NPC - q[2])>>)
InvSubOld == (Canonical(A) /\ Canonical(Bp)) => Exact(ImplSubOld(A, Bp)) = Clamp(Exact(A) - Exact(Bp))
=============================================================================
