----------------------------- MODULE APA_System -----------------------------
(***************************************************************************)
(* L1' (Apalache, symbolic) for the system laws of Hifitime.tla: at the     *)
(* REAL constants and for ALL register contents (any count in the range of  *)
(* durations for the epoch, the operand and the duration register; any      *)
(* cursor), the chains of calls across the types do what the laws say.      *)
(* The arithmetic is linear except for floor and the products k * step,      *)
(* which are stated through their defining inequalities (q is the quotient  *)
(* chosen by the solver), so every kernel is one SMT query:                 *)
(*   apalache-mc check --init=Init --next=Next --inv=<Inv> --length=0       *)
(* Clamp and the exhaustion test are restated on native integers; the same  *)
(* text is what MC_Hifitime explores on the scaled instance.                *)
(***************************************************************************)
EXTENDS Integers

NPC  == 3155760000000000000
MinV == -32768 * NPC
MaxV == 32768 * NPC
NsDay == 86400000000000

VARIABLES
  \* @type: Int;
  ev,      \* the epoch register (elapsed time in its scale)
  \* @type: Int;
  fv,      \* the operand of e - f, re-expressed in the scale of e
  \* @type: Int;
  dv,      \* the duration register
  \* @type: Int;
  k,       \* the cursor of a series
  \* @type: Int;
  n,       \* the number of steps that HSeries spans
  \* @type: Int;
  q,       \* a quotient (floor, item count) chosen by the solver
  \* @type: Bool;
  incl

\* @type: (Int) => Int;
Clamp(x) == IF x < MinV THEN MinV ELSE IF x > MaxV THEN MaxV ELSE x
\* @type: (Int) => Bool;
InRange(x) == x >= MinV /\ x <= MaxV
\* @type: (Int) => Int;
AbsI(x) == IF x < 0 THEN -x ELSE x

Init == /\ ev \in MinV..MaxV /\ fv \in MinV..MaxV /\ dv \in MinV..MaxV
        /\ k \in 0..4294967296 /\ n \in 0..1000000 /\ q \in (-70000 * NPC)..(70000 * NPC)
        /\ incl \in BOOLEAN
Next == UNCHANGED <<ev, fv, dv, k, n, q, incl>>

(* HDiff then HAddReg on the operand: f + (e - f) = e whenever the difference is representable *)
InvDiffInverts == LET d1 == Clamp(ev - fv) IN InRange(ev - fv) => Clamp(fv + d1) = ev
(* ... and the difference saturates on the side of the true value otherwise *)
InvDiffSaturates == LET d1 == Clamp(ev - fv) IN
                      (ev - fv > MaxV => d1 = MaxV) /\ (ev - fv < MinV => d1 = MinV)
(* HAddReg then HSubReg: (e + d) - d = e whenever the sum is representable *)
InvAddSub == InRange(ev + dv) => Clamp(Clamp(ev + dv) - dv) = ev
(* HFloorReg: with q the floored quotient of e by |d| (q*|d| <= e < (q+1)*|d|), the floor q*|d| is within one step *)
(* below e, and e.floor(d).floor(d) = e.floor(d)                                                                 *)
InvFloor == (dv # 0 /\ q * AbsI(dv) <= ev /\ ev < (q + 1) * AbsI(dv) /\ InRange(q * AbsI(dv)))
              => LET f1 == Clamp(q * AbsI(dv)) IN
                   /\ f1 <= ev /\ ev - f1 < AbsI(dv)
                   /\ (q * AbsI(dv) <= f1 /\ f1 < (q + 1) * AbsI(dv))          \* q is also the quotient of the floor
(* HSeries (from e to e + n*d, step d > 0, nothing saturating) then HTake k times: the series has n items       *)
(* (exclusive) or n + 1 (inclusive), item k is e + k*d, and it is exhausted exactly from then on                 *)
\* @type: (Int, Int, Int, Bool) => Bool;
Exhausted(span, step, kk, inc) == IF inc THEN span < kk * step ELSE span <= kk * step
InvSeries == (dv > 0 /\ InRange(ev + n * dv) /\ InRange(n * dv))
               => LET span == Clamp(Clamp(ev + Clamp(n * dv)) - ev)
                      count == IF incl THEN n + 1 ELSE n IN
                    /\ span = n * dv
                    /\ (Exhausted(span, dv, k, incl) <=> k >= count)
                    /\ (k < count => (InRange(k * dv) /\ Clamp(ev + Clamp(k * dv)) = ev + k * dv
                                      /\ ev + k * dv <= ev + span))
(* control: the exhaustion test as found (the saturating product) - refuted: a series whose span is the largest   *)
(* duration is never exhausted in inclusive mode                                                                  *)
InvSeriesOld == (dv > 0 /\ k * dv > MaxV /\ incl) => (MaxV < Clamp(k * dv))
(* HNextW / HPrevW move by j whole days, j in 1..7, and the weekday (day number mod 7) moves by j *)
InvNext == (q >= 1 /\ q <= 7 /\ InRange(ev + 7 * NsDay) /\ (ev \div NsDay) * NsDay <= ev)
             => LET e1 == Clamp(ev + q * NsDay) IN
                  /\ e1 - ev = q * NsDay
                  /\ (e1 \div NsDay) = (ev \div NsDay) + q
=============================================================================
