------------------------------ MODULE APA_Scales ------------------------------
(***************************************************************************)
(* L1' (Apalache, symbolic) for C05 and C06: the conversions at the REAL     *)
(* constants, for ALL instants at nanosecond resolution.                    *)
(*                                                                         *)
(* (1) The specification's UTC <-> TAI maps over the real 28-entry IERS      *)
(*     table satisfy the theorems of C06 (strictly increasing, round trip,  *)
(*     never backwards).                                                    *)
(* (2) The implementation-shaped transcription of the Rust algorithms (the  *)
(*     reverse scan of leap_seconds_with for UTC -> TAI; the ascending loop *)
(*     with the previous delta of the TAI -> UTC arm of to_time_scale)      *)
(*     refines them - except in the ten-second gap of the first entry       *)
(*     (known finding F27, pinned by tests/epoch.rs::utc_tai).              *)
(* (3) The algorithm as found (table looked up with the TAI count) is a     *)
(*     control kernel that must be refuted.                                 *)
(* (4) Uniform scales: conversion through TAI with the real offsets is      *)
(*     invertible and commutes with addition.                               *)
(* One SMT query per obligation:                                            *)
(*   apalache-mc check --init=Init --inv=<Inv> --length=0 APA_Scales.tla    *)
(* The table below is checked equal to the one of spec/Real.tla by TLC      *)
(* (MC_ApaTable) - it is written out because Apalache needs literals.       *)
(***************************************************************************)
EXTENDS Integers, Sequences, Apalache

NS == 1000000000
\* <<UTC count of the entry, TAI - UTC from the entry on>>, nanoseconds
\* @type: Seq(<<Int, Int>>);
Leap == <<
    <<2272060800000000000, 10000000000>>,
    <<2287785600000000000, 11000000000>>,
    <<2303683200000000000, 12000000000>>,
    <<2335219200000000000, 13000000000>>,
    <<2366755200000000000, 14000000000>>,
    <<2398291200000000000, 15000000000>>,
    <<2429913600000000000, 16000000000>>,
    <<2461449600000000000, 17000000000>>,
    <<2492985600000000000, 18000000000>>,
    <<2524521600000000000, 19000000000>>,
    <<2571782400000000000, 20000000000>>,
    <<2603318400000000000, 21000000000>>,
    <<2634854400000000000, 22000000000>>,
    <<2698012800000000000, 23000000000>>,
    <<2776982400000000000, 24000000000>>,
    <<2840140800000000000, 25000000000>>,
    <<2871676800000000000, 26000000000>>,
    <<2918937600000000000, 27000000000>>,
    <<2950473600000000000, 28000000000>>,
    <<2982009600000000000, 29000000000>>,
    <<3029443200000000000, 30000000000>>,
    <<3076704000000000000, 31000000000>>,
    <<3124137600000000000, 32000000000>>,
    <<3345062400000000000, 33000000000>>,
    <<3439756800000000000, 34000000000>>,
    <<3550089600000000000, 35000000000>>,
    <<3644697600000000000, 36000000000>>,
    <<3692217600000000000, 37000000000>> >>
NL == 28
\* range of instants considered: +/- 40 000 years around 1900 (any i16 century is covered)
LIM == 40000 * 366 * 86400 * NS

VARIABLES
  \* @type: Int;
  u,
  \* @type: Int;
  t,
  \* @type: Int;
  t2,
  \* @type: Int;
  dd

Init == /\ u \in Int /\ u >= -LIM /\ u <= LIM
        /\ t \in Int /\ t >= -LIM /\ t <= LIM
        /\ t2 \in Int /\ t2 >= -LIM /\ t2 <= LIM
        /\ dd \in Int /\ dd >= -LIM /\ dd <= LIM
Next == UNCHANGED <<u, t, t2, dd>>

\* ------------------------------------------------------------ the specification (TimeScales.tla)
\* @type: (Int) => Int;
LeapT(i) == Leap[i][1]
\* @type: (Int) => Int;
LeapD(i) == IF i = 0 THEN 0 ELSE Leap[i][2]
\* index of the entry in force at UTC count x: the number of entries not after x (the table is sorted)
\* @type: (Int) => Int;
EntryAt(x) ==
  LET \* @type: (Int, <<Int, Int>>) => Int;
      f(acc, en) == IF en[1] <= x THEN acc + 1 ELSE acc
  IN ApaFoldSeqLeft(f, 0, Leap)
\* @type: (Int) => Int;
Offset(x) == LeapD(EntryAt(x))
\* @type: (Int) => Int;
UtcToTai(x) == x + Offset(x)
\* largest i with y >= T_i + d_(i-1)
\* @type: (Int) => Int;
StepAt(y) ==
  LET \* (the previous offset of an entry: zero for the first, one second less for the others)
      \* @type: (Int, <<Int, Int>>) => Int;
      f(acc, en) == IF en[1] + (en[2] - (IF en[2] = 10 * NS THEN 10 * NS ELSE NS)) <= y THEN acc + 1 ELSE acc
  IN ApaFoldSeqLeft(f, 0, Leap)
\* @type: (Int) => Bool;
InGap(y) == StepAt(y) > 0 /\ y < LeapT(StepAt(y)) + LeapD(StepAt(y))
\* x is an admissible UTC count of the TAI instant y
\* @type: (Int, Int) => Bool;
Admissible(y, x) ==
  LET i == StepAt(y) IN
    IF i = 0 THEN x = y
    ELSE IF y < LeapT(i) + LeapD(i) THEN (x = LeapT(i) - 1 \/ x = LeapT(i))
    ELSE x = y - LeapD(i)

\* ------------------------------------------------------------ the implementation shape
\* leap_seconds_with: provider.rev(), the first entry whose time stamp is not after the count
\* @type: (Int) => Int;
ImplLookup(c) ==
  LET \* @type: (Int, <<Int, Int>>) => Int;
      f(acc, en) == IF c >= en[1] THEN en[2] ELSE acc
  IN ApaFoldSeqLeft(f, 0, Leap)
\* @type: (Int) => Int;
ImplUtcToTai(x) == x + ImplLookup(x)
\* the TAI -> UTC arm: ascending loop, state <<utc, previous delta, done>>
\* @type: (Int) => Int;
ImplTaiToUtc(y) ==
  LET \* @type: (<<Int, Int, Bool>>, <<Int, Int>>) => <<Int, Int, Bool>>;
      step(acc, en) ==
        IF acc[3] THEN acc
        ELSE IF y < en[1] + acc[2] THEN <<acc[1], acc[2], TRUE>>
        ELSE <<IF y >= en[1] + en[2] \/ acc[2] = 0 THEN y - en[2] ELSE en[1], en[2], FALSE>>
  IN ApaFoldSeqLeft(step, <<y, 0, FALSE>>, Leap)[1]
\* the algorithm as found: the UTC-indexed table looked up with the TAI count
\* @type: (Int) => Int;
OldTaiToUtc(y) == y - ImplLookup(y)

\* ------------------------------------------------------------ obligations
\* C06: UTC -> TAI adds the offset in force: 0 before 1972, 10 s from then, 37 s from 2017
InvOffsets == /\ (u < LeapT(1) => UtcToTai(u) = u)
              /\ (u >= LeapT(1) /\ u < LeapT(2) => UtcToTai(u) = u + 10 * NS)
              /\ (u >= LeapT(28) => UtcToTai(u) = u + 37 * NS)
              /\ Offset(u) >= 0 /\ Offset(u) <= 37 * NS
\* strictly increasing
InvStrict == t < t2 => UtcToTai(t) < UtcToTai(t2)
\* the image of a UTC count has exactly that count as admissible UTC value (round trip)
InvRoundTripSpec == Admissible(UtcToTai(u), u) /\ ~InGap(UtcToTai(u))
\* never backwards: admissible values are ordered like the instants (outside a common gap)
InvMonoSpec == (t <= t2 /\ ~(InGap(t) /\ InGap(t2) /\ StepAt(t) = StepAt(t2)))
                 => \A a \in {t, t - LeapD(StepAt(t)), IF StepAt(t) > 0 THEN LeapT(StepAt(t)) ELSE t, IF StepAt(t) > 0 THEN LeapT(StepAt(t)) - 1 ELSE t} :
                    \A b \in {t2, t2 - LeapD(StepAt(t2)), IF StepAt(t2) > 0 THEN LeapT(StepAt(t2)) ELSE t2, IF StepAt(t2) > 0 THEN LeapT(StepAt(t2)) - 1 ELSE t2} :
                      (Admissible(t, a) /\ Admissible(t2, b)) => a <= b
\* refinement
InvImplUtcToTai == ImplUtcToTai(u) = UtcToTai(u)
InvImplTaiToUtc == IF InGap(t) /\ StepAt(t) = 1 THEN ImplTaiToUtc(t) = t - LeapD(1)      \* F27
                   ELSE Admissible(t, ImplTaiToUtc(t))
InvImplRoundTrip == ImplTaiToUtc(ImplUtcToTai(u)) = u
InvImplMono == (t <= t2 /\ ~(InGap(t) /\ StepAt(t) = 1) /\ ~(InGap(t2) /\ StepAt(t2) = 1)) => ImplTaiToUtc(t) <= ImplTaiToUtc(t2)
\* control (must be refuted)
InvOldRoundTrip == OldTaiToUtc(ImplUtcToTai(u)) = u

\* C05: uniform scales through TAI; Ref = TAI instant at which the scale reads zero
\* @type: Seq(Int);
Ref == <<0, -32184000000, 2524953619000000000, 3144268819000000000, 3345062433000000000, 2524953619000000000>>
\* @type: (Int, Int, Int) => Int;
Conv(v, a, b) == v + Ref[a] - Ref[b]
InvUniform == \A a \in 1..6, b \in 1..6 :
                 /\ Conv(Conv(u, a, b), b, a) = u
                 /\ Conv(u + dd, a, b) = Conv(u, a, b) + dd
                 /\ (a = b => Conv(u, a, b) = u)
                 /\ \A c \in 1..6 : Conv(Conv(u, a, b), b, c) = Conv(u, a, c)
===============================================================================
