SPECIFICATION Spec
INVARIANTS C15_Yields C15_Increasing
PROPERTIES C15_StaysDone C15_Terminates C15_ImplRefines
CHECK_DEADLOCK FALSE
