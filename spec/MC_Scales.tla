------------------------------ MODULE MC_Scales ------------------------------
(***************************************************************************)
(* Exhaustive, scaled instance of the time-scale part of the specification  *)
(* (L1 for C04, C05, C06, C12).  One tick is "one second"; NPC = 20 ticks,   *)
(* centuries -2..1, so elapsed times range over -40..40.  Uniform scales     *)
(* have small distinct offsets, UTC has a three-entry leap table whose first *)
(* entry jumps by three ticks (like the ten seconds of 1972) and whose next  *)
(* entries insert one tick each; ET/TDB are a bounded relation around an     *)
(* affine centre.  Every case distinction of the real system exists: before  *)
(* the table, inside a gap, exactly at an entry, between entries, after.     *)
(***************************************************************************)
EXTENDS Integers, Sequences, FiniteSets, TLC

VARIABLES e, eout

Sgn(x) == IF x < 0 THEN -1 ELSE IF x = 0 THEN 0 ELSE 1
AbsI(x) == IF x < 0 THEN -x ELSE x
TQuot(a, b) == Sgn(a) * Sgn(b) * (AbsI(a) \div AbsI(b))

RefC  == [ts \in 0..8 |-> CASE ts = 0 -> 0 [] ts = 1 -> -2 [] ts = 2 -> 8 [] ts = 3 -> 8 [] ts = 4 -> 0
                            [] ts = 5 -> 5 [] ts = 6 -> 7 [] ts = 7 -> 9 [] OTHER -> 5]
LeapC == << <<10, 3>>, <<18, 4>>, <<26, 5>> >>

S == INSTANCE EpochMachine WITH
       NPC <- 20, CMIN <- -2, CMAX <- 1,
       N <- LAMBDA x : x, I <- LAMBDA x : x,
       Add <- LAMBDA a, b : a + b, Sub <- LAMBDA a, b : a - b, Mul <- LAMBDA a, b : a * b,
       QuotT <- TQuot, DivF <- LAMBDA a, b : a \div b, ModF <- LAMBDA a, b : a % b,
       Lt <- LAMBDA a, b : a < b, Le <- LAMBDA a, b : a <= b,
       U <- <<1, 1, 1, 1, 2, 4, 4, 8, 20>>,
       Ref <- RefC, Leap <- LeapC,
       GregDay <- [ts \in 0..8 |-> 0], GregTod <- [ts \in 0..8 |-> 0],
       DynCenter <- LAMBDA ts, v : v + RefC[ts], DynTol <- 1, FarTol <- 4

Dom   == S!MinV .. S!MaxV
Exact == S!Uniform \cup {S!UTC}
EpDom == [ts : 0..8, v : Dom]

Init == S!EInit
Next ==
  \/ \E ts \in 0..8, c \in -2..1, n \in {0, 1, 3, 9, 10, 12, 17, 19, 20, 21, 23} : S!ELoad(ts, c, n)
  \/ \E b \in {-21, -7, -1, 0, 1, 2, 9, 20} : S!EAddD(b) \/ S!ESubD(b)
  \/ \E ts2 \in 0..8, x \in Dom : S!EToScale(ts2, S!Ep(ts2, x))
  \/ \E fts \in 0..8, fv \in 6..32 : \E c \in {-1, 0, 1} : S!ECmp(S!Ep(fts, fv), c)
  \/ \E s \in {-3, 0, 1, 7} : S!EFloor(s) \/ (\E r \in Dom : S!ECeil(s, r) \/ S!ERound(s, r))
Spec == Init /\ [][Next]_<<e, eout>>

TypeOK == e \in EpDom
(* a conversion never changes the instant (exact scales, outside the gaps, away from the bounds) *)
C05_SameInstant ==
  [][ (eout'[1] = "conv" /\ e.ts \in Exact /\ e'.ts \in Exact
       /\ ~S!InGap(S!Instant(e)) /\ S!Instant(e) \in Dom /\ (S!Instant(e) - RefC[e'.ts]) \in Dom)
      => S!Instant(e') = S!Instant(e) ]_<<e, eout>>

-----------------------------------------------------------------------------
Utcs == -40..40
Tais == -40..45
\* C06: UTC -> TAI adds the offset in force, is strictly increasing, and is inverted exactly
ASSUME \A u \in Utcs : S!UtcToTai(u) = u + (IF u >= 26 THEN 5 ELSE IF u >= 18 THEN 4 ELSE IF u >= 10 THEN 3 ELSE 0)
ASSUME \A u1, u2 \in Utcs : u1 < u2 => S!UtcToTai(u1) < S!UtcToTai(u2)
ASSUME \A u \in Utcs : S!TaiToUtcSet(S!UtcToTai(u)) = {u}
\* TAI -> UTC never goes backwards: whatever admissible value is taken outside a gap, and the
\* stalled value inside it, are ordered like the instants
ASSUME \A t1, t2 \in Tais : (t1 <= t2 /\ ~(S!InGap(t1) /\ S!InGap(t2) /\ S!StepAt(t1) = S!StepAt(t2)))
          => \A u1 \in S!TaiToUtcSet(t1), u2 \in S!TaiToUtcSet(t2) : u1 <= u2
\* every TAI instant outside the gaps has exactly one UTC count, and it maps back
ASSUME \A t \in Tais : ~S!InGap(t) => (Cardinality(S!TaiToUtcSet(t)) = 1 /\ \A u \in S!TaiToUtcSet(t) : S!UtcToTai(u) = t)
ASSUME {t \in Tais : S!InGap(t)} = {10, 11, 12, 21, 30}
\* Refinement: the implementation-shaped transcription of the repaired TAI -> UTC arm of to_time_scale
\* (ascending loop over the table with the previous delta) and of the reverse lookup of
\* leap_seconds_with return an admissible value for every instant - except in the gap of the FIRST
\* entry, where they return t - delta (known finding F27, pinned by tests/epoch.rs::utc_tai)
RECURSIVE ImplTaiToUtcFrom(_, _, _, _)
ImplTaiToUtcFrom(t, i, utc, prev) ==
  IF i > Len(LeapC) THEN utc
  ELSE LET entry == LeapC[i][1]  delta == LeapC[i][2] IN
         IF t < entry + prev THEN utc                                          \* break
         ELSE ImplTaiToUtcFrom(t, i + 1, IF t >= entry + delta \/ prev = 0 THEN t - delta ELSE entry, delta)
ImplTaiToUtc(t) == ImplTaiToUtcFrom(t, 1, t, 0)
RECURSIVE ImplLookupFrom(_, _)
ImplLookupFrom(c, i) == IF i = 0 THEN 0 ELSE IF c >= LeapC[i][1] THEN LeapC[i][2] ELSE ImplLookupFrom(c, i - 1)   \* provider.rev()
ImplUtcToTai(u) == u + ImplLookupFrom(u, Len(LeapC))
ASSUME \A u \in Utcs : ImplUtcToTai(u) = S!UtcToTai(u)
ASSUME \A t \in Tais : IF S!InGap(t) /\ S!StepAt(t) = 1 THEN ImplTaiToUtc(t) = t - LeapC[1][2]
                        ELSE ImplTaiToUtc(t) \in S!TaiToUtcSet(t)
ASSUME \A u \in Utcs : ImplTaiToUtc(ImplUtcToTai(u)) = u                        \* the round trip of the code itself
ASSUME \A t1, t2 \in Tais : (t1 <= t2 /\ ~(S!InGap(t2) /\ S!StepAt(t2) = 1)) => ImplTaiToUtc(t1) <= ImplTaiToUtc(t2) \/ (S!InGap(t1) /\ S!StepAt(t1) = 1)
\* the algorithm as found (table looked up with the TAI count) is refuted: not a left inverse, not monotone
ImplTaiToUtcOld(t) == t - ImplLookupFrom(t, Len(LeapC))
ASSUME \E u \in Utcs : ImplTaiToUtcOld(ImplUtcToTai(u)) # u
ASSUME \E t \in Tais : t + 1 \in Tais /\ ImplTaiToUtcOld(t + 1) < ImplTaiToUtcOld(t)

\* C05: uniform scales: single result, exact constant offset, invertible, commutes with addition
ASSUME \A a, b \in S!Uniform, v \in Dom :
          /\ S!ConvSet(S!Ep(a, v), b) = {v + RefC[a] - RefC[b]}
          /\ (a = b => S!ConvSet(S!Ep(a, v), b) = {v})
ASSUME \A a, b \in S!Uniform, v \in -20..20, dd \in -8..8 :
          \A x \in S!ConvSet(S!Ep(a, v), b) :
             /\ S!ConvSet(S!Ep(b, x), a) = {v}
             /\ S!ConvSet(S!Ep(a, v + dd), b) = {x + dd}
\* C12: the chronological order is a total order on instants, whatever the scales
ASSUME \A x, y \in {p \in EpDom : p.ts \in Exact /\ p.v \in 4..34} :
          /\ S!ChronoCmp(x, y) = -S!ChronoCmp(y, x)
          /\ (S!ChronoCmp(x, y) = 0 <=> S!Instant(x) = S!Instant(y))
\* ... and is preserved by converting either operand (outside the gaps)
ASSUME \A x, y \in {p \in EpDom : p.ts \in Exact /\ p.v \in 6..32}, ts2 \in Exact :
          ~S!InGap(S!Instant(x)) =>
             \A xv \in S!ConvSet(x, ts2) : S!ChronoCmp(S!Ep(ts2, xv), y) = S!ChronoCmp(x, y)
\* C20: week / time of week: mutually inverse, the time of week below one week (scaled week = 8 ticks)
ASSUME \A v \in 0..40 : LET p == S!ToTOW(v) IN p[1] >= 0 /\ p[2] \in 0..(S!NsWeek - 1) /\ S!FromTOW(p[1], p[2]) = v
ASSUME \A wk \in 0..4, n \in 0..(S!NsWeek - 1) : (wk * S!NsWeek + n <= 40) => S!ToTOW(S!FromTOW(wk, n)) = <<wk, n>>
ASSUME \A wk \in 0..9, n \in 0..30 : S!FromTOW(wk, n) = (IF wk * S!NsWeek + n > 40 THEN 40 ELSE wk * S!NsWeek + n)   \* saturates at MAX
\* C04: differences invert addition in the same scale (away from saturation)
ASSUME \A v \in -20..20, dd \in -19..19 :
          /\ S!DSub(S!DAdd(v, dd), v) = dd /\ S!DSub(S!DAdd(v, dd), dd) = v
          /\ S!DAdd(v, S!DSub(v + dd, v)) = v + dd
=============================================================================
