SPECIFICATION Spec
CONSTANTS
  MaxEdits = 2
  ShortLen = 5
INVARIANT NoPanic
CHECK_DEADLOCK FALSE
