----------------------------- MODULE MC_Calendar -----------------------------
(***************************************************************************)
(* Exhaustive check of the calendar closed forms (L1 for C08, C09, C16,     *)
(* C17, C20): TLC walks day by day through the configured year ranges - all *)
(* 3 652 059 days of 0001..9999 in the thorough tier - and checks at every  *)
(* day that civil-from-days inverts days-from-civil, that the next day is   *)
(* the calendar successor (month lengths, 4/100/400 rule), that the weekday *)
(* advances by one, and that the implementation-shaped day count (365 days  *)
(* per year + leap days + month prefix sums) equals the closed form.        *)
(***************************************************************************)
EXTENDS Integers, Sequences, TLC
C == INSTANCE Calendar

CONSTANT Ranges        \* set of <<first year, last year>>
VARIABLES n, last

RangesQuick == { <<1, 12>>, <<96, 104>>, <<396, 404>>, <<1580, 1620>>, <<1795, 1805>>, <<1890, 2110>>,
                 <<2396, 2404>>, <<9990, 9999>> }
RangesThorough == { <<1 + 625 * k, IF k = 15 THEN 9999 ELSE 625 * (k + 1)>> : k \in 0..15 }

Init == \E r \in Ranges : n = C!N(r[1], 1, 1) /\ last = C!N(r[2], 12, 31)
Next == n < last /\ n' = n + 1 /\ UNCHANGED last
Spec == Init /\ [][Next]_<<n, last>>

Cumul == <<0, 31, 59, 90, 120, 151, 181, 212, 243, 273, 304, 334>>
LeapsBefore(y) == ((y - 1) \div 4) - ((y - 1) \div 100) + ((y - 1) \div 400)
(* the shape of Epoch::maybe_from_gregorian: 365 days per year since 1900, one day per leap *)
(* year in between, the month prefix sum (+1 after February of a leap year), the day        *)
ImplDayCount(y, m, d) ==
  365 * (y - 1900) + (LeapsBefore(y) - LeapsBefore(1900))
  + Cumul[m] + (IF C!IsLeap(y) /\ m > 2 THEN 1 ELSE 0) + (d - 1)

-----------------------------------------------------------------------------
(* The shape of Epoch::compute_gregorian (the calendar part: day number -> year, month, day).      *)
(* div_rem_f64(days, 365): truncated quotient, lowered by one when the truncated remainder is       *)
(* negative, and that remainder made non-negative; then one day per leap year between 1900 and the *)
(* estimated year is removed (added before 1900) and the estimate is corrected year by year until   *)
(* the day of year is in range; the month is found by searching the prefix sums.                    *)
DivTrunc(a, b) == IF a >= 0 THEN a \div b ELSE -((-a) \div b)
ImplDivRem(a, b) == LET q == DivTrunc(a, b)  r == a - b * q IN <<IF r < 0 THEN q - 1 ELSE q, IF r < 0 THEN r + b ELSE r>>
LeapsIn(a, b) == LeapsBefore(b) - LeapsBefore(a)                      \* leap years y with a <= y < b
LeapDay(y) == IF C!IsLeap(y) THEN 1 ELSE 0
RECURSIVE FixDown(_, _), FixUp(_, _)
FixDown(y, diy) == IF diy < 0 THEN FixDown(y - 1, diy + 365 + LeapDay(y - 1)) ELSE <<y, diy>>
FixUp(y, diy)   == IF diy >= 365 + LeapDay(y) THEN FixUp(y + 1, diy - 365 - LeapDay(y)) ELSE <<y, diy>>
ImplYearDay(k) == LET qr == ImplDivRem(k, 365)  y0 == qr[1] + 1900 IN
                    IF y0 >= 1900 THEN FixDown(y0, qr[2] - LeapsIn(1900, y0)) ELSE FixUp(y0, qr[2] + LeapsIn(y0, 1900))
CumulOf(y, m) == Cumul[m] + (IF C!IsLeap(y) /\ m > 2 THEN 1 ELSE 0)
(* binary_search: an exact hit at index i (0-based) gives month i + 1, otherwise the insertion point *)
MonthOf(y, diy) == CHOOSE m \in 1..12 : CumulOf(y, m) <= diy /\ (m = 12 \/ CumulOf(y, m + 1) > diy)
ImplCivil(k) == LET yd == ImplYearDay(k)  m == MonthOf(yd[1], yd[2]) IN <<yd[1], m, yd[2] - CumulOf(yd[1], m) + 1>>
(* the algorithm as found: the estimate corrected at most once, and before 1900 without the leap day *)
(* of the year that is left - refuted below, so that the refinement check is known to discriminate   *)
OldYearDay(k) == LET qr == ImplDivRem(k, 365)  y0 == qr[1] + 1900 IN
                    IF y0 >= 1900
                    THEN LET diy == qr[2] - LeapsIn(1900, y0) IN IF diy < 0 THEN <<y0 - 1, diy + 365 + LeapDay(y0 - 1)>> ELSE <<y0, diy>>
                    ELSE LET diy == qr[2] + LeapsIn(y0, 1900) IN IF diy >= 365 + LeapDay(y0) THEN <<y0 + 1, diy - 365>> ELSE <<y0, diy>>
ASSUME OldYearDay(C!N(1601, 1, 1)) # <<1601, 0>>            \* printed as 1601-01-02
ASSUME OldYearDay(C!N(9999, 12, 31))[1] # 9999
ASSUME \E y \in 1..393 : OldYearDay(C!N(y, 12, 31)) # <<y, 364 + LeapDay(y)>>
ASSUME \A y \in {-30000, -4713, -1, 0, 1, 393, 394, 1582, 1899, 1900, 1901, 2000, 3400, 3401, 9999, 10000, 30000}, m \in 1..12 :
          \A d \in {1, C!DaysInMonth(y, m)} : ImplCivil(C!N(y, m, d)) = <<y, m, d>>

Inverse ==
  LET c == C!CivilOfN(n) IN
    /\ C!ValidDate(c[1], c[2], c[3])
    /\ C!N(c[1], c[2], c[3]) = n
    /\ ImplDayCount(c[1], c[2], c[3]) = n
    /\ ImplCivil(n) = c
    /\ C!DayOfYear(c[1], c[2], c[3]) \in 1..C!DaysInYear(c[1])
Successor ==
  [][ LET a == C!CivilOfN(n)  b == C!CivilOfN(n') IN
        /\ \/ (b[1] = a[1] /\ b[2] = a[2] /\ b[3] = a[3] + 1 /\ a[3] < C!DaysInMonth(a[1], a[2]))
           \/ (b[1] = a[1] /\ b[2] = a[2] + 1 /\ b[3] = 1 /\ a[3] = C!DaysInMonth(a[1], a[2]) /\ a[2] < 12)
           \/ (b[1] = a[1] + 1 /\ b[2] = 1 /\ b[3] = 1 /\ a[2] = 12 /\ a[3] = 31)
        /\ C!WeekdayOfN(n') = (C!WeekdayOfN(n) + 1) % 7 ]_<<n, last>>

(* anchors that do not depend on the closed forms being right *)
ASSUME C!N(1900, 1, 1) = 0
ASSUME C!N(2000, 1, 1) = 36524 /\ C!WeekdayOfN(C!N(2000, 1, 1)) = 5      \* a Saturday
ASSUME C!N(1980, 1, 6) = 29224 /\ C!WeekdayOfN(C!N(1980, 1, 6)) = 6      \* a Sunday (GPS week start)
ASSUME C!N(1970, 1, 1) = 25567
ASSUME C!N(1900, 1, 1) - C!N(1858, 11, 17) = 15020                        \* MJD of 1900-01-01
ASSUME C!N(1999, 8, 22) = 36392 /\ C!N(2006, 1, 1) = 38716
ASSUME \A y \in -400..2400 : (C!N(y + 1, 1, 1) - C!N(y, 1, 1) = 366) <=> ((y % 4 = 0 /\ y % 100 # 0) \/ y % 400 = 0)
ASSUME \A y \in -400..2400 : C!N(y + 1, 1, 1) - C!N(y, 1, 1) \in {365, 366}
ASSUME \A y \in {-30000, -4713, -1, 0, 1, 4, 100, 400, 1582, 1899, 1900, 1972, 2000, 2100, 9999, 10000, 30000}, m \in 1..12 :
          \A d \in 1..C!DaysInMonth(y, m) :
             C!CivilOfN(C!N(y, m, d)) = <<y, m, d>> /\ ImplDayCount(y, m, d) = C!N(y, m, d)
=============================================================================
