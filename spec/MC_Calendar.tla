----------------------------- MODULE MC_Calendar -----------------------------
(***************************************************************************)
(* Exhaustive check of the calendar closed forms (L1 for C08, C09, C16,     *)
(* C17, C20): TLC walks day by day through the configured year ranges - all *)
(* 3 652 059 days of 0001..9999 in the thorough tier - and checks at every  *)
(* day that civil-from-days inverts days-from-civil, that the next day is   *)
(* the calendar successor (month lengths, 4/100/400 rule), that the weekday *)
(* advances by one, and that the implementation-shaped day count (365 days  *)
(* per year + leap days + month prefix sums) equals the closed form.        *)
(***************************************************************************)
EXTENDS Integers, Sequences, TLC
C == INSTANCE Calendar

CONSTANT Ranges        \* set of <<first year, last year>>
VARIABLES n, last

RangesQuick == { <<1, 12>>, <<96, 104>>, <<396, 404>>, <<1580, 1620>>, <<1795, 1805>>, <<1890, 2110>>,
                 <<2396, 2404>>, <<9990, 9999>> }
RangesThorough == { <<1 + 625 * k, IF k = 15 THEN 9999 ELSE 625 * (k + 1)>> : k \in 0..15 }

Init == \E r \in Ranges : n = C!N(r[1], 1, 1) /\ last = C!N(r[2], 12, 31)
Next == n < last /\ n' = n + 1 /\ UNCHANGED last
Spec == Init /\ [][Next]_<<n, last>>

Cumul == <<0, 31, 59, 90, 120, 151, 181, 212, 243, 273, 304, 334>>
LeapsBefore(y) == ((y - 1) \div 4) - ((y - 1) \div 100) + ((y - 1) \div 400)
(* the shape of Epoch::maybe_from_gregorian: 365 days per year since 1900, one day per leap *)
(* year in between, the month prefix sum (+1 after February of a leap year), the day        *)
ImplDayCount(y, m, d) ==
  365 * (y - 1900) + (LeapsBefore(y) - LeapsBefore(1900))
  + Cumul[m] + (IF C!IsLeap(y) /\ m > 2 THEN 1 ELSE 0) + (d - 1)

Inverse ==
  LET c == C!CivilOfN(n) IN
    /\ C!ValidDate(c[1], c[2], c[3])
    /\ C!N(c[1], c[2], c[3]) = n
    /\ ImplDayCount(c[1], c[2], c[3]) = n
    /\ C!DayOfYear(c[1], c[2], c[3]) \in 1..C!DaysInYear(c[1])
Successor ==
  [][ LET a == C!CivilOfN(n)  b == C!CivilOfN(n') IN
        /\ \/ (b[1] = a[1] /\ b[2] = a[2] /\ b[3] = a[3] + 1 /\ a[3] < C!DaysInMonth(a[1], a[2]))
           \/ (b[1] = a[1] /\ b[2] = a[2] + 1 /\ b[3] = 1 /\ a[3] = C!DaysInMonth(a[1], a[2]) /\ a[2] < 12)
           \/ (b[1] = a[1] + 1 /\ b[2] = 1 /\ b[3] = 1 /\ a[2] = 12 /\ a[3] = 31)
        /\ C!WeekdayOfN(n') = (C!WeekdayOfN(n) + 1) % 7 ]_<<n, last>>

(* anchors that do not depend on the closed forms being right *)
ASSUME C!N(1900, 1, 1) = 0
ASSUME C!N(2000, 1, 1) = 36524 /\ C!WeekdayOfN(C!N(2000, 1, 1)) = 5      \* a Saturday
ASSUME C!N(1980, 1, 6) = 29224 /\ C!WeekdayOfN(C!N(1980, 1, 6)) = 6      \* a Sunday (GPS week start)
ASSUME C!N(1970, 1, 1) = 25567
ASSUME C!N(1900, 1, 1) - C!N(1858, 11, 17) = 15020                        \* MJD of 1900-01-01
ASSUME C!N(1999, 8, 22) = 36392 /\ C!N(2006, 1, 1) = 38716
ASSUME \A y \in -400..2400 : (C!N(y + 1, 1, 1) - C!N(y, 1, 1) = 366) <=> ((y % 4 = 0 /\ y % 100 # 0) \/ y % 400 = 0)
ASSUME \A y \in -400..2400 : C!N(y + 1, 1, 1) - C!N(y, 1, 1) \in {365, 366}
ASSUME \A y \in {-30000, -4713, -1, 0, 1, 4, 100, 400, 1582, 1899, 1900, 1972, 2000, 2100, 9999, 10000, 30000}, m \in 1..12 :
          \A d \in 1..C!DaysInMonth(y, m) :
             C!CivilOfN(C!N(y, m, d)) = <<y, m, d>> /\ ImplDayCount(y, m, d) = C!N(y, m, d)
=============================================================================
