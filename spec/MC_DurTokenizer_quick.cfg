SPECIFICATION Spec
CONSTANTS
  MaxEdits = 1
  ShortLen = 4
INVARIANT NoPanic
CHECK_DEADLOCK FALSE
