INIT Init
NEXT Next
