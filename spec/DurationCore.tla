---------------------------- MODULE DurationCore ----------------------------
(***************************************************************************)
(* The abstract Duration data type of hifitime (DESIGN.md, Appendix A.1).   *)
(*                                                                         *)
(* A duration is an integer number of nanoseconds v with MinV <= v <= MaxV. *)
(* Its one observable form is Parts(v) = <<centuries, nanoseconds>>.        *)
(* Every public operation is "the mathematical result, clamped".           *)
(*                                                                         *)
(* The module is written once against an abstract number carrier (the       *)
(* operator constants below).  It is instantiated                           *)
(*   - over TLC's native integers with scaled constants (MC_Duration: every *)
(*     case distinction exists, the whole space is enumerable), and         *)
(*   - over BigInt with the real constants (Trace: judges the recorded      *)
(*     calls of the Rust implementation).                                   *)
(* Whatever TLC establishes for the first instance is established about the *)
(* very text that judges the implementation.                                *)
(***************************************************************************)
EXTENDS Integers, Sequences

CONSTANTS
  NPC,          \* nanoseconds per century              (carrier value, > 0)
  CMIN, CMAX,   \* bounds of the century field          (TLC integers)
  N(_),         \* embed a (small) TLC integer into the carrier
  I(_),         \* carrier value -> TLC integer (used only where the value is known to be small)
  Add(_, _), Sub(_, _), Mul(_, _),
  QuotT(_, _),  \* division truncating toward zero, divisor # 0
  DivF(_, _),   \* floored division, divisor > 0
  ModF(_, _),   \* remainder of floored division, in 0..divisor-1
  Lt(_, _), Le(_, _),
  U             \* unit table: U[1..9] = ns in a nanosecond, microsecond, millisecond, second,
                \* minute, hour, day, week, century (carrier values; U[9] = NPC)

Z    == N(0)
One  == N(1)
NegN(x) == Sub(Z, x)
AbsN(x) == IF Lt(x, Z) THEN NegN(x) ELSE x
MinN(x, y) == IF Le(x, y) THEN x ELSE y
MaxN(x, y) == IF Le(x, y) THEN y ELSE x
SgnN(x) == IF Lt(x, Z) THEN -1 ELSE IF x = Z THEN 0 ELSE 1

MinV == Mul(NPC, N(CMIN))
MaxV == Mul(NPC, N(CMAX + 1))
InRange(v) == Le(MinV, v) /\ Le(v, MaxV)
Clamp(x)   == MaxN(MinV, MinN(MaxV, x))

(* the observable (centuries, nanoseconds) form; centuries as a TLC integer *)
Parts(v) == IF v = MaxV THEN <<CMAX, NPC>> ELSE <<I(DivF(v, NPC)), ModF(v, NPC)>>
Val(c, n) == Add(Mul(NPC, N(c)), n)
(* a pair <<c, n>> is THE form of some value *)
Canonical(p) == /\ p[1] \in CMIN..CMAX
                /\ Le(Z, p[2])
                /\ (Lt(p[2], NPC) \/ (p = <<CMAX, NPC>>))

(* constructors *)
FromParts(c, n) == Clamp(Val(c, n))      \* any century in range, any non-negative n
FromTotal(x)    == Clamp(x)

(* arithmetic *)
DAdd(a, b)  == Clamp(Add(a, b))
DSub(a, b)  == Clamp(Sub(a, b))
DNeg(a)     == Clamp(NegN(a))
DAbs(a)     == Clamp(AbsN(a))
DMulI(a, q) == Clamp(Mul(a, q))
DDivI(a, q) == Clamp(QuotT(a, q))         \* q # 0; the quotient is always in range except MinV / -1 ... which clamps
DSignum(a)  == SgnN(a)

(* order and equality *)
DCmp(a, b) == IF Lt(a, b) THEN -1 ELSE IF a = b THEN 0 ELSE 1
(* the documented quirk: a duration equals its exact negation within one century of zero *)
NegationQuirk(a, b) == a = NegN(b) /\ Lt(AbsN(a), NPC)
DEq(a, b) == a = b \/ NegationQuirk(a, b)
DMin(a, b) == IF Lt(a, b) THEN a ELSE b
DMax(a, b) == IF Lt(b, a) THEN a ELSE b

(* snapping to multiples of |s| *)
FloorRaw(d, s) == Mul(DivF(d, AbsN(s)), AbsN(s))
Floor(d, s) == IF s = Z THEN Z ELSE Clamp(FloorRaw(d, s))
Ceil(d, s)  == IF s = Z THEN Z ELSE Clamp(Add(FloorRaw(d, s), AbsN(s)))
Round(d, s) == IF s = Z THEN Z
               ELSE LET f == FloorRaw(d, s)
                        c == Add(f, AbsN(s))
                    IN  IF Lt(Sub(d, f), Sub(c, d)) THEN Clamp(f) ELSE Clamp(c)

(* Where the statement of C14 leaves room: when the floor itself is below the minimum duration  *)
(* (the value lies within one step of the bound) "floor plus |s|" and "the least multiple       *)
(* strictly greater" are different numbers, and "the nearer of the two" depends on whether the  *)
(* two are taken before or after saturation.  Both readings are admitted there, nowhere else.   *)
CeilSet(d, s) ==
  IF s = Z THEN {Z}
  ELSE {Ceil(d, s)} \cup (IF Lt(FloorRaw(d, s), MinV) THEN {Clamp(Add(MinV, AbsN(s)))} ELSE {})
Nearer(d, f, c) == IF Lt(Sub(d, f), AbsN(Sub(c, d))) THEN f ELSE c
RoundSet(d, s) ==
  IF s = Z THEN {Z}
  ELSE {Round(d, s)} \cup
       (IF Lt(FloorRaw(d, s), MinV) \/ Lt(MaxV, Add(FloorRaw(d, s), AbsN(s)))
        THEN {Nearer(d, Floor(d, s), c) : c \in CeilSet(d, s)} ELSE {})

(* building from an integer count of a unit (1..9) *)
FromUnit(q, u) == Clamp(Mul(q, U[u]))

(* sign and mixed-radix digits of |v|: <<sign, days, hours, minutes, seconds, ms, us, ns>> *)
Decompose(v) ==
  LET m   == AbsN(v)
      dd  == DivF(m, U[7])   r1 == ModF(m, U[7])
      hh  == DivF(r1, U[6])  r2 == ModF(r1, U[6])
      mi  == DivF(r2, U[5])  r3 == ModF(r2, U[5])
      ss  == DivF(r3, U[4])  r4 == ModF(r3, U[4])
      ms  == DivF(r4, U[3])  r5 == ModF(r4, U[3])
      us  == DivF(r5, U[2])  ns == ModF(r5, U[2])
  IN  <<SgnN(v), dd, hh, mi, ss, ms, us, ns>>
(* the inverse: composed fields (each a non-negative carrier value), sign < 0 negates *)
ComposeMag(dd, hh, mi, ss, ms, us, ns) ==
  Add(Mul(dd, U[7]), Add(Mul(hh, U[6]), Add(Mul(mi, U[5]), Add(Mul(ss, U[4]),
      Add(Mul(ms, U[3]), Add(Mul(us, U[2]), ns))))))
Compose(sign, dd, hh, mi, ss, ms, us, ns) ==
  LET m == Clamp(ComposeMag(dd, hh, mi, ss, ms, us, ns))
  IN  IF sign < 0 THEN Clamp(NegN(m)) ELSE m

-----------------------------------------------------------------------------
(* KNOWN DEVIATION F1 (known_findings.json): what the implementation computes, not what the     *)
(* properties require.  Duration::total_nanoseconds() SUBTRACTS the nanosecond field when the   *)
(* century field is below -1; tests/duration.rs::duration_floor_ceil_round pins that behaviour  *)
(* ((MIN + 10 s).floor(10 s) == MIN), so it cannot be repaired without editing the suite.       *)
(* Everything built on that accessor inherits the wrong count for such operands.  These         *)
(* operators are used ONLY by the Dev_F1 actions of the trace specification.                    *)
F1Total(v) == LET p == Parts(v) IN IF p[1] < -1 THEN Sub(Mul(NPC, N(p[1])), p[2]) ELSE v
F1Class(v) == LET p == Parts(v) IN p[1] < -1 /\ p[2] # Z
F1MulI(a, q)  == Clamp(Mul(F1Total(a), F1Total(Clamp(q))))
F1DivI(a, q)  == Clamp(QuotT(F1Total(a), F1Total(Clamp(q))))
F1Floor(a, s) == IF F1Total(s) = Z THEN Z
                 ELSE Clamp(Sub(F1Total(a), ModF(F1Total(a), AbsN(F1Total(s)))))
F1Ceil(a, s)  == Clamp(Add(F1Total(F1Floor(a, s)), AbsN(s)))
F1Round(a, s) == LET f == F1Floor(a, s)  c == F1Ceil(a, s)
                 IN  IF Lt(DSub(a, f), DAbs(DSub(c, a))) THEN f ELSE c

(* 64-bit accessors; I64MIN/I64MAX are supplied by the instantiating module *)
Fits(v, lo, hi) == Le(lo, v) /\ Le(v, hi)
=============================================================================
