------------------------------ MODULE LeapFile ------------------------------
(***************************************************************************)
(* The IERS leap-seconds.list format as read by a leap-second provider      *)
(* (C06: "a provider loaded from an IERS-format file answers identically"). *)
(*                                                                         *)
(* A file is a sequence of lines (code point sequences, terminators         *)
(* removed).  Empty lines and lines whose first character is '#' carry no   *)
(* data.  Every other line is a data line: its first two whitespace-        *)
(* separated fields are the entry's time stamp (seconds since 1900-01-01)   *)
(* and the accumulated TAI-UTC offset in seconds; anything after them (the  *)
(* customary "# 1 Jan 1972" comment) is ignored.  Fields are separated by   *)
(* any run of blanks and tabs - the file published by IERS aligns its       *)
(* columns with tabs, copies in circulation use runs of spaces.             *)
(*                                                                         *)
(* Numbers are returned as digit sequences; the caller (Trace) evaluates    *)
(* them on the BigInt carrier and judges their range (u64 / u8).            *)
(***************************************************************************)
EXTENDS Text

cHash == 35
IsWs(c) == c \in {9, 10, 11, 12, 13, 32, 133, 160, 5760, 8232, 8233, 8239, 8287, 12288} \/ (c >= 8192 /\ c <= 8202)

(* the whitespace-separated fields of a line *)
RECURSIVE FieldsFrom(_, _, _)
FieldsFrom(s, i, cur) ==
  IF i > Len(s) THEN (IF cur = <<>> THEN <<>> ELSE <<cur>>)
  ELSE IF IsWs(s[i]) THEN (IF cur = <<>> THEN <<>> ELSE <<cur>>) \o FieldsFrom(s, i + 1, <<>>)
  ELSE FieldsFrom(s, i + 1, Append(cur, s[i]))
FieldsOf(s) == FieldsFrom(s, 1, <<>>)

AllDigits(w) == w # <<>> /\ \A i \in 1..Len(w) : IsDigit(w[i])
(* a field that no reading of "number" accepts: it contains something that is neither a digit nor a sign *)
NotANumber(w) == \E i \in 1..Len(w) : ~IsDigit(w[i]) /\ w[i] \notin {cPlus, cDash}
DigitsOfWord(w) == [i \in 1..Len(w) |-> w[i] - 48]

IsDataLine(s) == s # <<>> /\ s[1] # cHash
DataLines(lines) == SelectSeq(lines, IsDataLine)

(* "yes": a well-formed entry; "no": certainly not an entry (a single field, or a field that is not a  *)
(* number); "maybe": the statement does not say (a line of blanks only, an indented '#', signs)         *)
LineClass(s) ==
  LET f == FieldsOf(s) IN
    IF Len(f) = 0 \/ f[1][1] = cHash THEN "maybe"
    ELSE IF Len(f) < 2 THEN "no"
    ELSE IF AllDigits(f[1]) /\ AllDigits(f[2]) THEN "yes"
    ELSE IF NotANumber(f[1]) \/ NotANumber(f[2]) THEN "no"
    ELSE "maybe"
(* the entries of a file all of whose data lines are well formed: <<time stamp digits, offset digits>> *)
(* (only meaningful when AllYes) *)
EntriesOf(lines) == LET dl == DataLines(lines) IN
                      [i \in 1..Len(dl) |-> LET f == FieldsOf(dl[i]) IN <<DigitsOfWord(f[1]), DigitsOfWord(f[2])>>]
AllYes(lines)  == \A i \in 1..Len(DataLines(lines)) : LineClass(DataLines(lines)[i]) = "yes"
SomeNo(lines)  == \E i \in 1..Len(DataLines(lines)) : LineClass(DataLines(lines)[i]) = "no"
=============================================================================
