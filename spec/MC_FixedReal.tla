---------------------------- MODULE MC_FixedReal ----------------------------
(* Self-check of the fixed-point sine with identities that need no external oracle. *)
EXTENDS Integers, Sequences, TLC
F == INSTANCE FixedReal
B == INSTANCE BigInt
Eps == B!FromInt(200)                         \* 2e-18
Near(a, b) == B!Le(B!Abs(B!Sub(a, b)), Eps)
Grid == { B!Mk(k < 0, B!MulMag(B!MagOfNat(IF k < 0 THEN -k ELSE k), B!Pow10Mag(19))) : k \in -70..70 }   \* -7.0 .. 7.0 step 0.1
Big  == { B!Mul(B!FromInt(k), B!Pow10(20)) : k \in {10, 100, 1000, 12345, 63000, -63000, 99999} }

ASSUME \A x \in Grid \cup Big : Near(B!Add(F!FxMul(F!Sin(x), F!Sin(x)), F!FxMul(F!Cos(x), F!Cos(x))), F!S)
ASSUME \A x \in Grid : Near(F!Sin(B!Neg(x)), B!Neg(F!Sin(x)))
ASSUME Near(F!Sin(F!FxDivInt(F!Pi, 6)), F!FxDivInt(F!S, 2))
ASSUME Near(F!Sin(F!HalfPi), F!S) /\ Near(F!Sin(F!Pi), B!Zero) /\ Near(F!Sin(B!Zero), B!Zero)
\* sin(1) = 0.84147098480789650665...
ASSUME Near(F!Sin(F!S), B!Mk(FALSE, B!MagOfDigits(<<8,4,1,4,7,0,9,8,4,8,0,7,8,9,6,5,0,6,6,5>>)))
\* periodicity and monotonicity on [-pi/2, pi/2]
ASSUME \A x \in Grid : Near(F!Sin(B!Add(x, F!TwoPi)), F!Sin(x))
ASSUME \A x, y \in {g \in Grid : B!Le(B!Neg(F!HalfPi), g) /\ B!Le(g, F!HalfPi)} : B!Lt(x, y) => B!Lt(F!Sin(x), F!Sin(y))
VARIABLE x
Init == x = 0
Next == UNCHANGED x
=============================================================================
