----------------------------- MODULE TimeScales -----------------------------
(***************************************************************************)
(* Time scales and conversions (DESIGN.md, Appendix A.2 and A.3), carrier-  *)
(* parametric like DurationCore.                                            *)
(*                                                                         *)
(* An epoch is a record [ts |-> scale, v |-> duration value]: the elapsed   *)
(* time v in the scale ts since that scale's zero.  The instant it denotes  *)
(* is a point of the TAI axis (nanoseconds since 1900-01-01 00:00:00 TAI).  *)
(*   - uniform scales (TAI TT GPST GST BDT QZSST): instant = v + Ref[ts];   *)
(*   - UTC: instant = v + Offset(v), Offset from the IERS leap-second table;*)
(*   - ET, TDB: instant = v + J2000 - (32.184 s + periodic term); handled   *)
(*     by the trace specification with an explicit tolerance (C07).         *)
(***************************************************************************)
EXTENDS DurationCore

CONSTANTS
  Ref,     \* [scale -> carrier]: TAI instant at which a uniform scale reads zero
  Leap     \* sequence of <<T_i, d_i>>: from UTC count T_i on, TAI - UTC = d_i (carrier values, ns)

TAI == 0  TT == 1  ET == 2  TDB == 3  UTC == 4  GPST == 5  GST == 6  BDT == 7  QZSST == 8
Scales  == 0..8
Uniform == {TAI, TT, GPST, GST, BDT, QZSST}
Dynamic == {ET, TDB}

Ep(ts, v) == [ts |-> ts, v |-> v]

-----------------------------------------------------------------------------
(* leap seconds *)
LeapT(i) == Leap[i][1]
LeapD(i) == IF i = 0 THEN Z ELSE Leap[i][2]
NLeap    == Len(Leap)

(* index of the table entry in force at UTC count u (0 = before the table) *)
RECURSIVE EntryAtFrom(_, _)
EntryAtFrom(u, i) == IF i = 0 THEN 0 ELSE IF Le(LeapT(i), u) THEN i ELSE EntryAtFrom(u, i - 1)
EntryAt(u) == EntryAtFrom(u, NLeap)
Offset(u)  == LeapD(EntryAt(u))

UtcToTai(u) == Add(u, Offset(u))

(* largest i with t >= T_i + d_(i-1): the entry whose step has begun at TAI instant t *)
RECURSIVE StepAtFrom(_, _)
StepAtFrom(t, i) == IF i = 0 THEN 0
                    ELSE IF Le(Add(LeapT(i), LeapD(i - 1)), t) THEN i ELSE StepAtFrom(t, i - 1)
StepAt(t) == StepAtFrom(t, NLeap)
(* t lies in the stretch of TAI that UtcToTai skips (the inserted second; the 10 s of 1972) *)
InGap(t) == LET i == StepAt(t) IN i > 0 /\ Lt(t, Add(LeapT(i), LeapD(i)))
(* the admissible UTC counts of a TAI instant: the unique preimage outside the gaps; inside a *)
(* gap the count stalls at the table entry (either end of the last nanosecond before it)      *)
TaiToUtcSet(t) ==
  LET i == StepAt(t) IN
    IF i = 0 THEN {t}
    ELSE IF Lt(t, Add(LeapT(i), LeapD(i))) THEN {Sub(LeapT(i), One), LeapT(i)}
    ELSE {Sub(t, LeapD(i))}

-----------------------------------------------------------------------------
(* instants and conversions, uniform scales and UTC *)
Exactly(ts) == ts \in Uniform \cup {UTC}

Instant(e) == IF e.ts = UTC THEN UtcToTai(e.v) ELSE Add(e.v, Ref[e.ts])

(* the admissible results of converting epoch e to scale ts2, both exactly representable.     *)
(* "as long as no duration bound is hit": if an intermediate or the final count leaves the    *)
(* representable range the statement is silent, and any in-range result is admitted.          *)
ConvSet(e, ts2) ==
  IF ts2 = e.ts THEN {e.v}
  ELSE LET t == Instant(e) IN
         IF ts2 = UTC THEN TaiToUtcSet(t) ELSE {Sub(t, Ref[ts2])}
ConvOK(e, ts2, r) ==
  /\ r.ts = ts2 /\ InRange(r.v)
  /\ ((ts2 = e.ts /\ InRange(Instant(e))) => r.v = e.v)     \* (some accessors go through TAI even for the identity)
  /\ LET t == Instant(e) IN
       (InRange(t) /\ (\A x \in ConvSet(e, ts2) : InRange(x))) => r.v \in ConvSet(e, ts2)

(* chronological comparison *)
ChronoCmp(e1, e2) == DCmp(Instant(e1), Instant(e2))
=============================================================================
