------------------------------ MODULE RealSpec ------------------------------
(***************************************************************************)
(* The whole specification instantiated at the real constants of hifitime   *)
(* on the BigInt carrier: the Duration, Epoch/TimeSeries/text and Weekday   *)
(* machines.  Extended by Trace (trace validation) and by MC_Text (checks   *)
(* of the text specification on sampled values).                            *)
(***************************************************************************)
EXTENDS Integers, Sequences, FiniteSets, TLC, Real

VARIABLES d, out,   \* Duration machine (DurationMachine)
          e, eout,  \* Epoch machine (EpochMachine)
          ser, sout,\* TimeSeries machine (SeriesMachine)
          w, wout   \* Weekday machine (WeekdayMachine)

M == INSTANCE DurationMachine WITH
       NPC <- NPCr, CMIN <- -32768, CMAX <- 32767,
       N <- B!FromInt, I <- B!ToInt,
       Add <- B!Add, Sub <- B!Sub, Mul <- B!Mul, QuotT <- B!QuotT,
       DivF <- B!DivF, ModF <- B!ModF, Lt <- B!Lt, Le <- B!Le, U <- Ur

(* closed-form centre of the dynamical scales: defined below (C07) *)
DynCenterR(ts, v) == B!Sub(B!Add(v, J2000Ns), Msec(32184))

Dy == INSTANCE Dyadic
(* a decimal literal times a unit, by the rule of C18 (used by the duration grammar) *)
F64MulUnitR(dec, u) == M!Clamp(Dy!MulTrunc(Dy!DecToDouble(dec), Ur[u].m))

X == INSTANCE Efmt WITH
       NPC <- NPCr, CMIN <- -32768, CMAX <- 32767,
       N <- B!FromInt, I <- B!ToInt,
       Add <- B!Add, Sub <- B!Sub, Mul <- B!Mul, QuotT <- B!QuotT,
       DivF <- B!DivF, ModF <- B!ModF, Lt <- B!Lt, Le <- B!Le, U <- Ur,
       Ref <- RefR, Leap <- LeapR, GregDay <- GregDayR, GregTod <- GregTodR,
       DynCenter <- DynCenterR, DynTol <- B!FromInt(30), FarTol <- B!FromInt(100),
       F64MulUnit <- F64MulUnitR
W == INSTANCE WeekdayMachine

=============================================================================
