------------------------------ MODULE RealSpec ------------------------------
(***************************************************************************)
(* The whole specification instantiated at the real constants of hifitime   *)
(* on the BigInt carrier: the Duration, Epoch/TimeSeries/text and Weekday   *)
(* machines.  Extended by Trace (trace validation) and by MC_Text (checks   *)
(* of the text specification on sampled values).                            *)
(***************************************************************************)
EXTENDS Integers, Sequences, FiniteSets, TLC, Real

VARIABLES d, out,   \* Duration machine (DurationMachine)
          e, eout,  \* Epoch machine (EpochMachine)
          ser, sout,\* TimeSeries machine (SeriesMachine)
          w, wout   \* Weekday machine (WeekdayMachine)

M == INSTANCE DurationMachine WITH
       NPC <- NPCr, CMIN <- -32768, CMAX <- 32767,
       N <- B!FromInt, I <- B!ToInt,
       Add <- B!Add, Sub <- B!Sub, Mul <- B!Mul, QuotT <- B!QuotT,
       DivF <- B!DivF, ModF <- B!ModF, Lt <- B!Lt, Le <- B!Le, U <- Ur

(* The closed forms of the dynamical scales (C07), with t the seconds past J2000 in the scale itself  *)
(* (v is that count in nanoseconds).  Constants as exact decimals:                                  *)
(*   ET  - TAI = 32.184 s + K sin(E),  E = M + EB sin M,  M = M0 + M1 t                              *)
(*               K = 1.657e-3 s, EB = 1.671e-2, M0 = 6.239996, M1 = 1.99096871e-7 rad/s  (NAIF LSK)  *)
(*   TDB - TAI = 32.184 s + 0.001658 s sin(g + 0.0167 sin g),  g = 357.528 deg + 1.990910018065731e-7 rad/s t *)
Fx == INSTANCE FixedReal
EtM(v)  == B!Add(Fx!FxDec(<<6,2,3,9,9,9,6>>, 6), B!QuotT(B!Mul(B!FromInt(199096871), v), B!Pow10(4)))
EtE(v)  == LET mm == EtM(v) IN B!Add(mm, Fx!FxMul(Fx!FxDec(<<1,6,7,1>>, 5), Fx!Sin(mm)))
EtPeriodicNs(v)  == B!QuotT(B!Mul(B!FromInt(1657000), Fx!Sin(EtE(v))), Fx!S)
TdbG(v) == B!Add(B!QuotT(B!Mul(B!FromInt(357528), Fx!Pi), B!FromInt(180000)),
                 B!QuotT(B!Mul(B!Mk(FALSE, B!MagOfDigits(<<1,9,9,0,9,1,0,0,1,8,0,6,5,7,3,1>>)), v), B!Pow10(11)))
TdbPeriodicNs(v) == LET g == TdbG(v) IN
                      B!QuotT(B!Mul(B!FromInt(1658000), Fx!Sin(B!Add(g, Fx!FxMul(Fx!FxDec(<<1,6,7>>, 4), Fx!Sin(g))))), Fx!S)
(* the TAI instant (ns since 1900-01-01 TAI) that the closed form assigns to count v of scale ts (ET = 2, TDB = 3) *)
DynCenterR(ts, v) == B!Sub(B!Add(v, J2000Ns), B!Add(Msec(32184), IF ts = 2 THEN EtPeriodicNs(v) ELSE TdbPeriodicNs(v)))

Dy == INSTANCE Dyadic
(* a decimal literal times a unit, by the rule of C18 (used by the duration grammar) *)
F64MulUnitR(dec, u) == M!Clamp(Dy!MulTrunc(Dy!DecToDouble(dec), Ur[u].m))

X == INSTANCE Extras WITH
       NPC <- NPCr, CMIN <- -32768, CMAX <- 32767,
       N <- B!FromInt, I <- B!ToInt,
       Add <- B!Add, Sub <- B!Sub, Mul <- B!Mul, QuotT <- B!QuotT,
       DivF <- B!DivF, ModF <- B!ModF, Lt <- B!Lt, Le <- B!Le, U <- Ur,
       Ref <- RefR, Leap <- LeapR, GregDay <- GregDayR, GregTod <- GregTodR,
       DynCenter <- DynCenterR, DynTol <- B!FromInt(30), FarTol <- B!FromInt(100),
       F64MulUnit <- F64MulUnitR
W == INSTANCE WeekdayMachine
(* the system machine: the same registers, the cross-type calls (Hifitime.tla) *)
H == INSTANCE Hifitime WITH
       NPC <- NPCr, CMIN <- -32768, CMAX <- 32767,
       N <- B!FromInt, I <- B!ToInt,
       Add <- B!Add, Sub <- B!Sub, Mul <- B!Mul, QuotT <- B!QuotT,
       DivF <- B!DivF, ModF <- B!ModF, Lt <- B!Lt, Le <- B!Le, U <- Ur,
       Ref <- RefR, Leap <- LeapR, GregDay <- GregDayR, GregTod <- GregTodR,
       DynCenter <- DynCenterR, DynTol <- B!FromInt(30), FarTol <- B!FromInt(100)

=============================================================================
