INIT Init
NEXT Next
