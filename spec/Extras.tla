------------------------------- MODULE Extras -------------------------------
(***************************************************************************)
(* Behaviour of hifitime beyond the twenty listed properties, specified as  *)
(* the code and its documentation define it (growth of the specification;   *)
(* DESIGN.md section 12.5).  Checked by `bin/check EXTRAS`, which is not a  *)
(* registered property check: an unexplained event there is reported as     *)
(* SPEC-DEVIATION, never as a VIOLATION of a listed property.               *)
(***************************************************************************)
EXTENDS Efmt

(* Duration::approx: round to one unit of the largest non-zero component *)
LargestUnit(v) ==
  LET x == Decompose(v) IN
    IF I(x[2]) > 0 THEN 7 ELSE IF I(x[3]) > 0 THEN 6 ELSE IF I(x[4]) > 0 THEN 5 ELSE IF I(x[5]) > 0 THEN 4
    ELSE IF I(x[6]) > 0 THEN 3 ELSE IF I(x[7]) > 0 THEN 2 ELSE 1
ApproxSet(v) == RoundSet(v, U[LargestUnit(v)])

(* Unit <-> u8 and TimeScale <-> u8 (documented mappings; out-of-range u8 fall back to Second / TAI) *)
UnitOfU8(b) == CASE b = 1 -> 1 [] b = 2 -> 2 [] b = 3 -> 3 [] b = 4 -> 5 [] b = 5 -> 6 [] b = 6 -> 7 [] b = 7 -> 8 [] b = 8 -> 9 [] OTHER -> 4
U8OfUnit(u) == CASE u = 1 -> 1 [] u = 2 -> 2 [] u = 3 -> 3 [] u = 5 -> 4 [] u = 6 -> 5 [] u = 7 -> 6 [] u = 8 -> 7 [] u = 9 -> 8 [] OTHER -> 0
ScaleOfU8(b) == IF b \in 1..8 THEN b ELSE 0
IsGnss(ts) == ts \in {GPST, GST, BDT, QZSST}
UsesLeapSeconds(ts) == ts = UTC
RinexName(ts) == CASE ts = GPST -> <<71, 80, 83>> [] ts = GST -> <<71, 65, 76>> [] ts = BDT -> <<66, 68, 83>>
                   [] ts = QZSST -> <<81, 90, 83, 83>> [] OTHER -> ScaleName(ts)

(* Epoch::with_hms and relatives: recompose the elapsed time from its decomposition.  They act  *)
(* on the magnitude of the elapsed time, so before the scale's zero they do not address the      *)
(* civil time of day (documented behaviour of the code, not a calendar operation).               *)
WithHms(v, h, mi, s, strict) ==
  LET x == Decompose(v) IN
    Compose(x[1], x[2], h, mi, s, IF strict THEN Z ELSE x[6], IF strict THEN Z ELSE x[7], IF strict THEN Z ELSE x[8])
WithTimeFrom(v, ov) ==
  LET x == Decompose(v)  y == Decompose(ov) IN Compose(x[1], x[2], y[3], y[4], y[5], y[6], y[7], y[8])

(* Frequencies: q * Freq is the period 1/q in nanoseconds through an f64 quotient, truncated.   *)
(* K = nanoseconds of one cycle at 1 unit of the frequency (GHz 1, MHz 1e3, kHz 1e6, Hz 1e9).    *)
FreqK(f) == CASE f = 0 -> N(1) [] f = 1 -> N(1000) [] f = 2 -> N(1000000) [] OTHER -> U[4]

(* MonthName: from a u8 (1..12, anything else falls back to January), its long and short English names *)
MonthOfU8(b) == IF b \in 1..12 THEN b ELSE 1

(* Display of a TimeSeries: "TimeSeries [first : last : step]" with the default text of the two epochs and of *)
(* the step; last = start + span for an inclusive series, start + span - step for an exclusive one             *)
WordTimeSeries == <<84, 105, 109, 101, 83, 101, 114, 105, 101, 115, 32, 91>>          \* "TimeSeries ["
SeriesText(sr) ==
  LET last == IF sr.incl THEN DAdd(sr.start.v, sr.span) ELSE DSub(DAdd(sr.start.v, sr.span), sr.step) IN
    WordTimeSeries \o Display(sr.start.ts, sr.start.v) \o <<32, 58, 32>> \o Display(sr.start.ts, last)
      \o <<32, 58, 32>> \o Show(sr.step) \o <<93>>

(* The leap second providers as iterators: next() and next_back() share one cursor (as implemented: the k-th *)
(* call overall, counting both kinds, looks at position k from its own end; next_back() refuses once the      *)
(* cursor has reached the length).  calls[i] = 0 for next(), 1 for next_back(); the result is the 1-based     *)
(* index of the entry yielded, 0 for None.  next() keeps advancing the cursor after the end, and a next_back()  *)
(* that finds the cursor beyond the length computes `len - cursor` on unsigned integers: with overflow checks   *)
(* it panics (logged as -2, the sequence ends there) - a defect of the iterators outside the listed properties, *)
(* recorded in DESIGN.md section 13.4; the specification describes it as it is.                                 *)
RECURSIVE LeapIterFrom(_, _, _, _)
LeapIterFrom(calls, i, pos, len) ==
  IF i > Len(calls) THEN <<>>
  ELSE IF calls[i] = 0 THEN <<IF pos < len THEN pos + 1 ELSE 0>> \o LeapIterFrom(calls, i + 1, pos + 1, len)
  ELSE IF pos = len THEN <<0>> \o LeapIterFrom(calls, i + 1, pos, len)
  ELSE IF pos > len THEN <<-2>>
  ELSE <<len - pos>> \o LeapIterFrom(calls, i + 1, pos + 1, len)
LeapIter(calls, len) == LeapIterFrom(calls, 1, 0, len)

(* TimeSeries::next_back as implemented: shares the cursor k with next(); the m-th call overall  *)
(* yields start + span - k*step (so the end itself is never yielded), until k*step exceeds the   *)
(* span (exclusive) or span + step (inclusive).                                                  *)
SNextBack ==
  LET k1  == ser.k + 1
      off == DMulI(ser.step, N(k1))
      lim == IF ser.incl THEN DAdd(ser.span, ser.step) ELSE ser.span
  IN  /\ ser' = [ser EXCEPT !.k = k1]
      /\ sout' = IF Lt(lim, off) THEN <<"none">>
                 ELSE <<"some", Ep(ser.start.ts, DSub(DAdd(ser.start.v, ser.span), off))>>
=============================================================================
