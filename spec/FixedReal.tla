------------------------------ MODULE FixedReal ------------------------------
(***************************************************************************)
(* Fixed-point reals on the BigInt carrier, for the closed forms of ET and  *)
(* TDB (C07).  A real r is the integer round(r * 10^20) (a signed BigInt;   *)
(* 10^20 is five limbs, so rescaling is cheap).                             *)
(* Sin: argument reduced modulo 2 pi to [-pi, pi], folded to [-pi/2, pi/2], *)
(* then 14 terms of the Taylor series.  Error budget: each multiplication   *)
(* truncates by at most 1 unit (1e-20); the series remainder is below       *)
(* (pi/2)^29 / 29! < 1e-25; the reduction of an argument of up to 1e5 rad   *)
(* with pi known to 1e-20 adds 2e-16.  The closed forms multiply the sine   *)
(* by 1.7e-3 s, so the error on ET - TAI and TDB - TAI is below 1e-18 s,    *)
(* nine orders of magnitude under the 30 ns tolerance of the property.      *)
(***************************************************************************)
EXTENDS Integers, Sequences
B == INSTANCE BigInt

S     == B!Pow10(20)
Pi    == B!Mk(FALSE, B!MagOfDigits(<<3,1,4,1,5,9,2,6,5,3,5,8,9,7,9,3,2,3,8,4,6>>))       \* 3.14159265358979323846
TwoPi == B!Mk(FALSE, B!MagOfDigits(<<6,2,8,3,1,8,5,3,0,7,1,7,9,5,8,6,4,7,6,9,3>>))       \* 6.28318530717958647693
HalfPi == B!Mk(FALSE, B!MagOfDigits(<<1,5,7,0,7,9,6,3,2,6,7,9,4,8,9,6,6,1,9,2,3>>))      \* 1.57079632679489661923

(* decimal digits -> fixed point: Fx(<<1,6,5,7>>, 3) = 1.657e-3 ... n = number of digits after the point *)
FxDec(digits, fracDigits) == B!Mk(FALSE, B!MulMag(B!MagOfDigits(digits), B!Pow10Mag(20 - fracDigits)))

FxMul(a, b) == B!QuotT(B!Mul(a, b), S)
FxDivInt(a, k) == B!QuotT(a, B!FromInt(k))

(* x reduced to (-pi, pi] *)
Reduce(x) == LET r == B!ModF(x, TwoPi) IN IF B!Lt(Pi, r) THEN B!Sub(r, TwoPi) ELSE r
(* folded to [-pi/2, pi/2] with the same sine *)
Fold(x) == IF B!Lt(HalfPi, x) THEN B!Sub(Pi, x)
           ELSE IF B!Lt(x, B!Neg(HalfPi)) THEN B!Sub(B!Neg(Pi), x) ELSE x

RECURSIVE SinSeries(_, _, _, _)
(* sum of the remaining terms: term is the current term, x2 = x^2, k the index of the next factor pair *)
SinSeries(term, x2, k, n) ==
  IF n = 0 \/ B!IsZero(term) THEN B!Zero
  ELSE B!Add(term, SinSeries(B!Neg(FxDivInt(FxMul(term, x2), (2 * k) * (2 * k + 1))), x2, k + 1, n - 1))
Sin(x0) == LET x == Fold(Reduce(x0)) IN SinSeries(x, FxMul(x, x), 1, 14)
Cos(x0) == Sin(B!Add(x0, HalfPi))
=============================================================================
