----------------------------- MODULE MC_FmtParse -----------------------------
(***************************************************************************)
(* L1 for C13 (and the parsing half of C19): the implementation-shaped      *)
(* model of Format::parse - the third hand-written tokenizer - over         *)
(* character classes.  A format is a sequence of items <<kind, s1, s2>>:    *)
(* kind N a numeric token, W a name (month, weekday), T the time scale, O   *)
(* the offset (%z, printed +HH:MM by one item); s1, s2 the separator        *)
(* characters that follow it ("" = none).  The model keeps what the Rust    *)
(* code keeps: the byte offset of the current character, the byte offset    *)
(* where the pending field began, the index of the current item, the        *)
(* current token (which the %z arm changes in place) and the previous item. *)
(* Invariant, on every path: no slice off a boundary or with its ends       *)
(* crossed, no index into the item array beyond its sixteen slots.  Whether *)
(* a field lexes / passes its range check / is a known name is "either".    *)
(* TLC explores, for each of a set of formats (one with sixteen items),     *)
(* every class string within two edits of the text the format renders.      *)
(* The parser as found (item array indexed without a bound check) is a      *)
(* control that TLC refutes on the sixteen-item format.                     *)
(***************************************************************************)
EXTENDS TokClasses

FmtClasses == {"d", "-", ":", " ", "Z", "x", "+", "e2"}
MaxItems == 16
Kind(it) == it[1]
NumericKind(k) == k \in {"N", "O", "OM"}            \* OM: the minutes of an offset (the %z item after its colon)
SepIs(it, c)    == it[2] # "" /\ it[2] = c
SepIsNot(it, c) == it[2] # "" /\ it[2] # c
Sep2Is(it, c)    == it[3] # "" /\ it[3] = c
Sep2IsNot(it, c) == it[3] # "" /\ it[3] # c

(* the loop; `guarded` = the item array is read with get() (as now) rather than indexed (as found) *)
RECURSIVE Loop(_, _, _, _, _, _, _, _, _, _)
Loop(fmt, s, i, idx, prev, ci, curItem, curKind, prevItem, guarded) ==
  IF i > Len(s) THEN {"end"}
  ELSE LET c == s[i]  len == Bytes(c)  isLast == (idx + len = TotalBytes(s))
           go == Loop(fmt, s, i + 1, idx + len, prev, ci, curItem, curKind, prevItem, guarded) IN
    IF ~(isLast \/ (NumericKind(curKind) /\ ~Numeric(c)) \/ (~NumericKind(curKind) /\ SepIs(curItem, c))) THEN go
    ELSE IF idx = prev /\ (prevItem[3] = "" \/ Sep2Is(prevItem, c))
         THEN Loop(fmt, s, i + 1, idx + len, prev + len, ci, curItem, curKind, prevItem, guarded)
    ELSE IF curKind = "O" /\ c = ":" /\ ~isLast
         THEN (IF ~SliceOK(s, prev, idx) THEN {"PANIC"}
               ELSE {"err"} \cup Loop(fmt, s, i + 1, idx + len, idx + len, ci, curItem, "OM", prevItem, guarded))
    ELSE IF curKind = "T"
         THEN (IF ~isLast /\ ~SliceOK(s, idx, TotalBytes(s)) THEN {"PANIC"} ELSE {"end", "err"})
    ELSE LET stop0 == c = "Z" /\ ~SepIs(curItem, c) /\ ~Sep2Is(curItem, c)
             adv   == ~isLast \/ ~Numeric(c)
             sepErr == adv /\ ~stop0 /\ SepIsNot(curItem, c) /\ (curItem[3] = "" \/ Sep2IsNot(curItem, c))
             ci2   == IF adv /\ ~stop0 THEN ci + 1 ELSE ci
             oob   == adv /\ ~stop0 /\ ~guarded /\ ci2 > MaxItems            \* items[ci2] on a sixteen-slot array
             hasNext == ci2 <= Len(fmt)
             stop  == stop0 \/ (adv /\ ~stop0 /\ ~hasNext)
             end   == IF adv THEN idx ELSE idx + len
             nItem == IF adv /\ ~stop0 /\ hasNext THEN fmt[ci2] ELSE curItem
         IN  IF sepErr THEN {"err"}
             ELSE IF oob THEN {"PANIC"}
             ELSE IF ~SliceOK(s, prev, end) THEN {"PANIC"}
             ELSE {"err"} \cup (IF stop THEN {"end"}
                                ELSE Loop(fmt, s, i + 1, idx + len, idx + len, ci2, nItem, Kind(nItem), curItem, guarded))
Run(fmt, s0, guarded) ==
  LET s == Trim(s0) IN
    IF fmt = <<>> THEN {"err"} ELSE Loop(fmt, s, 1, 0, 0, 1, fmt[1], Kind(fmt[1]), fmt[1], guarded)

(* what a format renders, as a class string: two digits per numeric item, three letters per name or scale *)
RECURSIVE Render(_, _)
Render(fmt, k) ==
  IF k > Len(fmt) THEN <<>>
  ELSE (CASE Kind(fmt[k]) = "N" -> <<"d", "d">> [] Kind(fmt[k]) = "O" -> <<"+", "d", "d", ":", "d", "d">> [] OTHER -> <<"x", "x", "x">>)
       \o (IF k < Len(fmt) THEN (IF fmt[k][2] = "" THEN <<>> ELSE <<fmt[k][2]>>) \o (IF fmt[k][3] = "" THEN <<>> ELSE <<fmt[k][3]>>) ELSE <<>>)
       \o Render(fmt, k + 1)

N(a, b) == <<"N", a, b>>
Formats == {
  <<N("-", ""), N("-", ""), N(" ", ""), N(":", ""), N(":", ""), N("", "")>>,                       \* %Y-%m-%d %H:%M:%S
  <<N("-", ""), N("-", ""), N("Z", ""), N(":", ""), N(":", ""), N(" ", ""), <<"T", "", "">>>>,     \* ...Z%H:%M:%S %T
  <<<<"W", ",", " ">>, N(" ", ""), <<"W", " ", "">>, N(" ", ""), N(":", ""), N("", "")>>,          \* %a, %d %b %Y %H:%M
  <<N("-", ""), N("-", ""), N(":", ""), N("", ""), <<"O", " ", "">>, <<"T", "", "">>>>,            \* ...%M%z %T
  <<N(":", ""), N(" ", ""), <<"O", "", "">>>>,                                                    \* %H:%M %z
  [k \in 1..16 |-> N(IF k < 16 THEN " " ELSE "", "")],                                             \* sixteen items
  <<N("", ""), N("", "")>>, <<<<"T", "", "">>>>, <<<<"O", "", "">>>> }

CONSTANT MaxEdits
VARIABLES f, s, k
Init == f \in Formats /\ s = Render(f, 1) /\ k = 0
Next == k < MaxEdits /\ s' \in (EditsOver(s, FmtClasses) \cup {s \o <<c>> \o t : c \in FmtClasses, t \in {<<>>, <<"d", "d">>, <<"d", " ", "d">>}})
          /\ k' = k + 1 /\ UNCHANGED f
Spec == Init /\ [][Next]_<<f, s, k>>

NoPanic == "PANIC" \notin Run(f, s, TRUE)
(* the rendered text is tokenized to its end (the model does not reject everything) *)
ASSUME \A fm \in Formats : "end" \in Run(fm, Render(fm, 1), TRUE)
(* control: indexing the item array without a bound check runs past its sixteen slots when the text of a *)
(* sixteen-item format goes on after the last field                                                       *)
ASSUME LET f16 == [j \in 1..16 |-> N(IF j < 16 THEN " " ELSE "", "")] IN
         /\ "PANIC" \in Run(f16, Render(f16, 1) \o <<" ", "d", "d">>, FALSE)
         /\ "PANIC" \notin Run(f16, Render(f16, 1) \o <<" ", "d", "d">>, TRUE)
=============================================================================
