------------------------------- MODULE MC_Text -------------------------------
(***************************************************************************)
(* L1 for the text specification (C09-C11, C13, C19), at the real           *)
(* constants on sampled values: the design implies the properties.          *)
(*   - ParseIso(Display(e)) is e, for every scale, also through RFC 3339;   *)
(*   - the duration sentence printed for d parses back to d;                *)
(*   - each documented format string parses, the ISO 8601 string renders    *)
(*     what Display prints whenever the fraction is non-zero;               *)
(*   - rendering with a round-trippable format determines the fields.       *)
(* TLC steps through the sample set (one state per sample).                 *)
(***************************************************************************)
EXTENDS RealSpec

VARIABLES i, lim
NsDayR == Ur[7]
(* sample instants: day numbers spread over years 0001-9999 and times of day at the boundaries *)
Days == <<-693595, -693594, -657071, -138427, -36524, -1, 0, 1, 59, 60, 365, 26297, 29224, 36524, 38716, 42734, 43829, 730484, 2958463>>
Tods == << B!Zero, B!FromInt(1), B!Sub(NsDayR, B!FromInt(1)), B!Mul(B!FromInt(86399), Ur[4]), B!Add(B!Mul(B!FromInt(45296), Ur[4]), B!FromInt(789000000)),
           B!Add(B!Mul(B!FromInt(3600), Ur[4]), B!FromInt(999999999)) >>
NSamples == Len(Days) * Len(Tods) * 9
DayOf(k) == Days[((k - 1) \div (Len(Tods) * 9)) + 1]
TodOf(k) == Tods[(((k - 1) \div 9) % Len(Tods)) + 1]
TsOf(k)  == (k - 1) % 9
(* elapsed time in scale ts of civil day number dn (from 1900-01-01) at time of day tod *)
ValOf(k) == B!Sub(B!Add(B!Mul(B!FromInt(DayOf(k) - GregDayR[TsOf(k)]), NsDayR), TodOf(k)), GregTodR[TsOf(k)])

Chunk == (NSamples + 15) \div 16
Init == /\ \E k \in 0..15 : i = 1 + k * Chunk /\ lim = (IF (k + 1) * Chunk < NSamples THEN (k + 1) * Chunk ELSE NSamples)
        /\ i <= NSamples
        /\ M!DInit /\ X!EInit /\ X!SInit /\ W!WInit
Next == i < lim /\ i' = i + 1 /\ UNCHANGED <<lim, d, out, e, eout, ser, sout, w, wout>>
Spec == Init /\ [][Next]_<<i, lim, d, out, e, eout, ser, sout, w, wout>>

(* C10: parse(format(e)) == e *)
RoundTripEpoch ==
  LET ts == TsOf(i)  v == ValOf(i)
      p  == X!ParseIso(X!Display(ts, v))
  IN  /\ p.g /\ p.ts = ts /\ X!IsoMustAccept(p) /\ X!IsoValue(p) = v
      /\ X!Fields(ts, v)[1] \in 1..9999
      /\ X!FromFieldsRaw(ts, X!Fields(ts, v)[1], X!Fields(ts, v)[2], X!Fields(ts, v)[3], X!Fields(ts, v)[4],
                         X!Fields(ts, v)[5], X!Fields(ts, v)[6], X!Fields(ts, v)[7]) = v          \* C09: fields invert
      /\ (ts = X!UTC => LET q == X!ParseIso(X!Rfc3339(v)) IN q.g /\ q.ts = X!UTC /\ X!IsoValue(q) = v)
(* C11: parse(show(d)) == d, on the same values read as durations, both signs *)
RoundTripDuration ==
  LET v == ValOf(i) IN
    \A x \in {v, B!Neg(v)} :
       LET u == X!ParseUnits(X!Show(x)) IN
         x = B!Zero \/ (u.g /\ X!UnitsValue(u) = x /\ ~X!ParseOffset(X!Show(x)).g)
(* C19: the ISO 8601 format renders what Display prints (non-zero fraction), with the full date and time *)
IsoFormatIsDisplay ==
  LET ts == TsOf(i)  v == ValOf(i)
      it == X!ParseFormat(X!DocISO8601).items
  IN  X!Fields(ts, v)[7] # 0 => X!Render(it, ts, v, B!Zero) = X!Display(ts, v)
FlexFormatIsDisplay ==
  LET ts == TsOf(i)  v == ValOf(i)
      it == X!ParseFormat(X!DocISO8601_FLEX).items
  IN  ts # X!UTC => X!Render(it, ts, v, B!Zero) = X!Display(ts, v)

ASSUME \A n \in {"ISO8601", "ISO8601_FLEX", "ISO8601_DATE", "ISO8601_ORDINAL", "RFC2822", "RFC2822_LONG", "RFC3339", "RFC3339_FLEX"} :
          X!ParseFormat(X!DocOf(n)).ok /\ X!AllJudged(X!ParseFormat(X!DocOf(n)).items)
ASSUME Len(X!ParseFormat(X!DocISO8601).items) = 8 /\ X!ParseFormat(X!DocISO8601_FLEX).items[7].opt
ASSUME X!RoundTrippable(X!ParseFormat(X!DocISO8601).items) /\ ~X!RoundTrippable(X!ParseFormat(X!DocISO8601_FLEX).items)
ASSUME ~X!ParseFormat(<<37, 81>>).ok                                   \* %Q
ASSUME X!Show(B!Zero) = <<48, 32, 110, 115>>
ASSUME X!ParseOffset(<<45, 48, 49, 58, 49, 53, 58, 51, 48>>).g          \* -01:15:30
ASSUME X!OffsetValue(X!ParseOffset(<<45, 48, 49, 58, 49, 53, 58, 51, 48>>)) = B!Neg(B!Mul(B!FromInt(4530), Ur[4]))
ASSUME X!OffsetValue(X!ParseOffset(<<43, 51, 54, 49, 53>>)) = B!Mul(B!FromInt(36 * 3600 + 15 * 60), Ur[4])   \* +3615
=============================================================================
