INIT Init
NEXT Next
