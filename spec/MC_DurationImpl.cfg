INIT Init
NEXT Next
