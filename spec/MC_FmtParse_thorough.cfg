SPECIFICATION Spec
CONSTANTS
  MaxEdits = 1
INVARIANT NoPanic
CHECK_DEADLOCK FALSE
