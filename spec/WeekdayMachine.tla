--------------------------- MODULE WeekdayMachine ---------------------------
(***************************************************************************)
(* Weekday values are the integers modulo 7 (Monday = 0 ... Sunday = 6).    *)
(* Register machine over the current weekday w; one action per public call  *)
(* of hifitime::Weekday (C16).                                              *)
(***************************************************************************)
EXTENDS Integers

VARIABLES w, wout
wvars == <<w, wout>>

WInit == w = 0 /\ wout = <<"init">>

WFromU8(u)  == w' = u % 7                  /\ wout' = <<"wd", w'>>        \* Weekday::from(u8)
WFromI8(i)  == w' = i % 7                  /\ wout' = <<"wd", w'>>        \* Weekday::from(i8): floored modulo
WAddU8(u)   == w' = (w + u) % 7            /\ wout' = <<"wd", w'>>        \* w + u8, w += u8
WSubU8(u)   == w' = (w - u) % 7            /\ wout' = <<"wd", w'>>        \* w - u8, w -= u8
WAddW(b)    == w' = (w + b) % 7            /\ wout' = <<"wd", w'>>        \* w + Weekday
(* w - b: days from w to the next occurrence of b, 0..6 *)
WDiff(b)    == UNCHANGED w                 /\ wout' = <<"days", (b - w) % 7>>
=============================================================================
