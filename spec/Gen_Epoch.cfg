SPECIFICATION GSpec
CONSTANTS
  Depth = 6
INVARIANT Emit
CHECK_DEADLOCK FALSE
