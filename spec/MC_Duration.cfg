SPECIFICATION Spec
CONSTANTS
  NPCc = 12
  CNEGc = 3
  CMAXc = 2
  NMAXc = 40
  QMAXc = 7
INVARIANTS TypeOK C02_Canonical OutInRange C11_Decompose
PROPERTIES C01_Step
CHECK_DEADLOCK FALSE
