--------------------------- MODULE DurationMachine ---------------------------
(***************************************************************************)
(* The Duration part of the hifitime API as a register machine.            *)
(*                                                                         *)
(* State: d, the current duration (a value of the abstract type); out, the *)
(* value returned by the last call.  One action per public call; the       *)
(* operand of a binary call is a parameter of the action.  The exhaustive   *)
(* configuration (MC_Duration) draws the parameters from the whole scaled   *)
(* domain; the trace specification (Trace) binds them to the logged         *)
(* arguments of a recorded call of the Rust implementation.                 *)
(***************************************************************************)
EXTENDS DurationCore

VARIABLES d, out
dvars == <<d, out>>

DInit == d = Z /\ out = <<"init">>

(* Duration::from_parts(c, n): any i16 century, any u64 nanoseconds *)
MLoad(c, n)   == d' = FromParts(c, n)            /\ out' = <<"dur", d'>>
(* Duration::from_total_nanoseconds(x) *)
MFromTotal(x) == d' = FromTotal(x)               /\ out' = <<"dur", d'>>
(* q * Unit (integer q) *)
MFromUnit(q, u) == d' = FromUnit(q, u)           /\ out' = <<"dur", d'>>
MAdd(b)       == d' = DAdd(d, b)                 /\ out' = <<"dur", d'>>
MSub(b)       == d' = DSub(d, b)                 /\ out' = <<"dur", d'>>
MNeg          == d' = DNeg(d)                    /\ out' = <<"dur", d'>>
MAbs          == d' = DAbs(d)                    /\ out' = <<"dur", d'>>
MMulI(q)      == d' = DMulI(d, q)                /\ out' = <<"dur", d'>>
MDivI(q)      == q # Z /\ d' = DDivI(d, q)       /\ out' = <<"dur", d'>>
MFloor(s)     == d' = Floor(d, s)                /\ out' = <<"dur", d'>>
MCeil(s)      == d' \in CeilSet(d, s)            /\ out' = <<"dur", d'>>
MRound(s)     == d' \in RoundSet(d, s)           /\ out' = <<"dur", d'>>
(* observers leave the register alone *)
MParts        == UNCHANGED d /\ out' = <<"parts", Parts(d)>>
MTotal        == UNCHANGED d /\ out' = <<"int", d>>
MCmp(b)       == UNCHANGED d /\ out' = <<"cmp", DCmp(d, b), DEq(d, b)>>
MDecompose    == UNCHANGED d /\ out' = <<"dec", Decompose(d)>>
=============================================================================
