------------------------------ MODULE Hifitime ------------------------------
(***************************************************************************)
(* The system: the four machines of the specification side by side - a      *)
(* Duration register d, an Epoch register e, a TimeSeries ser and a Weekday *)
(* register w - and the calls of the API through which a value of one type  *)
(* becomes the argument of a call on another: the difference of two epochs  *)
(* is a duration that can be added back, a duration is the step of a series *)
(* or of floor/ceil/round, the items of a series are epochs, an epoch has a *)
(* weekday and can be moved to the next occurrence of one, two weekdays are *)
(* a whole number of days apart, an epoch splits into weeks and a time of   *)
(* week.  The per-type machines take the operand of a binary call as a      *)
(* parameter; here the operand is the content of another register, so a     *)
(* behaviour of this machine is a chain in which every result is consumed   *)
(* by a later call.                                                         *)
(*                                                                         *)
(* Used three ways: MC_Hifitime (exhaustive on a scaled instance: the       *)
(* system laws below hold in every reachable state), Gen_Hifitime (TLC      *)
(* generates behaviours which the harness replays in the real code) and     *)
(* Trace (every replayed call is judged by these same actions at the real   *)
(* constants).                                                              *)
(***************************************************************************)
EXTENDS DurationMachine, SeriesMachine, WeekdayMachine

hvars == <<d, out, e, eout, ser, sout, w, wout>>
HInit == DInit /\ EInit /\ SInit /\ WInit

HKeepD == UNCHANGED <<d, out>>
HKeepE == UNCHANGED <<e, eout>>
HKeepS == UNCHANGED <<ser, sout>>
HKeepW == UNCHANGED <<w, wout>>

-----------------------------------------------------------------------------
(* the per-type calls, lifted (the other registers are left alone) *)
HLoadD(c, n)     == MLoad(c, n) /\ HKeepE /\ HKeepS /\ HKeepW
HLoadE(ts, c, n) == ELoad(ts, c, n) /\ HKeepD /\ HKeepS /\ HKeepW
HLoadW(u)        == WFromU8(u) /\ HKeepD /\ HKeepE /\ HKeepS
HToScale(ts2, r) == EToScale(ts2, r) /\ HKeepD /\ HKeepS /\ HKeepW
HNegD            == MNeg /\ HKeepE /\ HKeepS /\ HKeepW
HMulD(q)         == MMulI(q) /\ HKeepE /\ HKeepS /\ HKeepW

-----------------------------------------------------------------------------
(* Epoch x Epoch -> Duration:  d := e - f   (fc: f re-expressed in the scale of e) *)
HDiff(f, fc) == ESubE(f, fc) /\ d' = eout'[2] /\ out' = <<"dur", d'>> /\ HKeepS /\ HKeepW

(* Epoch x Duration -> Epoch, the duration being the register *)
HAddReg   == EAddD(d) /\ HKeepD /\ HKeepS /\ HKeepW
HSubReg   == ESubD(d) /\ HKeepD /\ HKeepS /\ HKeepW
HFloorReg == EFloor(d) /\ HKeepD /\ HKeepS /\ HKeepW
HCeilReg(r)  == ECeil(d, r) /\ HKeepD /\ HKeepS /\ HKeepW
HRoundReg(r) == ERound(d, r) /\ HKeepD /\ HKeepS /\ HKeepW

(* Epoch x Duration -> TimeSeries: from e to e + n * d in steps of d (a positive step) *)
HSeries(n, incl) ==
  /\ Lt(Z, d)
  /\ SNew(e, Ep(e.ts, DAdd(e.v, DMulI(d, N(n)))), d, incl, e)
  /\ HKeepD /\ HKeepE /\ HKeepW

(* TimeSeries -> Epoch:  e := ser.next(), when there is an item *)
HTake ==
  /\ SNext
  /\ IF sout'[1] = "some" THEN e' = sout'[2] /\ eout' = <<"epoch", e'>> ELSE HKeepE
  /\ HKeepD /\ HKeepW

(* Epoch -> Weekday:  w := e.weekday()   (rc: e re-expressed in TAI) *)
HWeekdayOf(rc) == EWeekday(TAI, rc) /\ w' = eout'[2] /\ wout' = <<"wd", w'>> /\ HKeepD /\ HKeepS

(* Epoch x Weekday -> Epoch:  e := e.next(w), e.previous(w) *)
HNextW(rc) == ENext(w, rc) /\ HKeepD /\ HKeepS /\ HKeepW
HPrevW(rc) == EPrev(w, rc) /\ HKeepD /\ HKeepS /\ HKeepW

(* Weekday x Weekday -> Duration:  d := w - b as the library defines it: the whole days from w forward to b *)
HDaysTo(b) == WDiff(b) /\ d' = Mul(N(wout'[2]), NsDay) /\ out' = <<"dur", d'>> /\ HKeepE /\ HKeepS

(* Epoch -> (weeks, Duration):  d := the time of week of e, and back: e := from_time_of_week(weeks, d) *)
HTowOf == EToTOW /\ d' = eout'[2][2] /\ out' = <<"dur", d'>> /\ HKeepS /\ HKeepW
HFromTow(wk) == ~Lt(d, Z) /\ Lt(d, NsWeek) /\ EFromTOW(e.ts, wk, d) /\ HKeepD /\ HKeepS /\ HKeepW

-----------------------------------------------------------------------------
(* System laws: statements about what a chain of calls across the types does.  Each is an action    *)
(* property of the machine (checked by MC_Hifitime on the scaled instance); together they are the    *)
(* cross-type reading of C04 (differences invert addition), C14 (floor by a register step), C15 (the  *)
(* items of a series built from the registers), C16 (next lands on the weekday asked for, 1..7 days   *)
(* on) and C20 (weeks and time of week recompose the epoch).                                          *)
NoSatAdd(a, b) == InRange(Add(a, b))
ExactTs(ts) == ts \in Uniform \cup {UTC}

(* after d := e - f (fc: f in the scale of e), fc + d is e again *)
LawDiff(e0, fc, d1) == InRange(Sub(e0.v, fc.v)) => (d1 = Sub(e0.v, fc.v) /\ DAdd(fc.v, d1) = e0.v)

(* e.floor(d) is a multiple of |d| not above e and less than |d| below it *)
LawFloorReg(e0, e1, s) == s # Z /\ InRange(Sub(e0.v, AbsN(s)))
                            => /\ e1.ts = e0.ts
                               /\ Le(e1.v, e0.v) /\ Lt(Sub(e0.v, e1.v), AbsN(s))
                               /\ ModF(e1.v, AbsN(s)) = Z

(* the item taken from a series is start + (k-1) * step, in the scale of the start *)
LawTake(s0, s1, item) == /\ s1.k = s0.k + 1
                         /\ item.ts = s0.start.ts
                         /\ item.v = DAdd(s0.start.v, DMulI(s0.step, N(s0.k)))

(* e.next(w): 1 to 7 whole days later, same scale *)
LawNext(e0, e1) == NoSatAdd(e0.v, Mul(N(7), NsDay))
                     => /\ e1.ts = e0.ts
                        /\ \E k \in 1..7 : e1.v = Add(e0.v, Mul(N(k), NsDay))
LawPrev(e0, e1) == InRange(Sub(e0.v, Mul(N(7), NsDay)))
                     => /\ e1.ts = e0.ts
                        /\ \E k \in 1..7 : e1.v = Sub(e0.v, Mul(N(k), NsDay))
=============================================================================
