----------------------------- MODULE TokClasses -----------------------------
(***************************************************************************)
(* Character classes and byte-offset vocabulary shared by the tokenizer     *)
(* models (MC_Tokenizer, MC_DurTokenizer): what a Rust tokenizer can        *)
(* observe of a character (UTF-8 length, char::is_numeric, ASCII digit),    *)
(* the character boundaries of a string, the safety condition of a slice,   *)
(* and the edit operations used to explore the neighbourhood of a grammar.  *)
(***************************************************************************)
EXTENDS Integers, Sequences, FiniteSets, TLC

(* classes: d ASCII digit; the delimiters - : . T Z + and blank; x an ASCII letter; e2 a two-byte      *)
(* letter (e acute); n2 a two-byte character that is_numeric but is not an ASCII digit (Arabic-Indic   *)
(* three); e3 a three-byte symbol (euro sign); e4 a four-byte symbol (musical clef)                    *)
Classes == {"d", "-", ":", ".", "T", "Z", "+", " ", "x", "e2", "n2", "e3", "e4"}
Bytes(c) == CASE c = "e2" -> 2 [] c = "n2" -> 2 [] c = "e3" -> 3 [] c = "e4" -> 4 [] OTHER -> 1
Numeric(c) == c \in {"d", "n2"}
AsciiDigit(c) == c = "d"

RECURSIVE TotalBytes(_)
TotalBytes(s) == IF s = <<>> THEN 0 ELSE Bytes(Head(s)) + TotalBytes(Tail(s))
(* byte offsets that are character boundaries of s *)
RECURSIVE BoundariesFrom(_, _, _)
BoundariesFrom(s, i, off) == IF i > Len(s) THEN {off} ELSE {off} \cup BoundariesFrom(s, i + 1, off + Bytes(s[i]))
Boundaries(s) == BoundariesFrom(s, 1, 0)
(* the characters of s between two boundaries *)
RECURSIVE CharsBetween(_, _, _, _, _)
CharsBetween(s, i, off, a, b) ==
  IF i > Len(s) \/ off >= b THEN <<>>
  ELSE (IF off >= a THEN <<s[i]>> ELSE <<>>) \o CharsBetween(s, i + 1, off + Bytes(s[i]), a, b)

RECURSIVE TrimL(_)
TrimL(s) == IF s # <<>> /\ Head(s) = " " THEN TrimL(Tail(s)) ELSE s
RECURSIVE TrimR(_)
TrimR(s) == IF s # <<>> /\ s[Len(s)] = " " THEN TrimR(SubSeq(s, 1, Len(s) - 1)) ELSE s
Trim(s) == TrimR(TrimL(s))


(* a slice s[a..b]: a panic unless a <= b <= len and both on boundaries *)
SliceOK(s, a, b) == a <= b /\ b <= TotalBytes(s) /\ a \in Boundaries(s) /\ b \in Boundaries(s)

Subst(s, i, c) == [s EXCEPT ![i] = c]
Insert(s, i, c) == SubSeq(s, 1, i - 1) \o <<c>> \o SubSeq(s, i, Len(s))          \* before position i (i = Len+1: append)
Delete(s, i)   == SubSeq(s, 1, i - 1) \o SubSeq(s, i + 1, Len(s))
EditsOver(s, Alphabet) == {Subst(s, i, c) : i \in 1..Len(s), c \in Alphabet} \cup {Insert(s, i, c) : i \in 1..(Len(s) + 1), c \in Alphabet}
            \cup {Delete(s, i) : i \in 1..Len(s)} \cup {SubSeq(s, 1, i) : i \in 0..Len(s)}

Edits(s) == EditsOver(s, Classes)
=============================================================================
