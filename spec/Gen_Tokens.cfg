SPECIFICATION Spec
CONSTANTS
  MaxEdits = 1
  ShortLen = 3
INVARIANT EmitCls
CHECK_DEADLOCK FALSE
