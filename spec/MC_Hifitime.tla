----------------------------- MODULE MC_Hifitime -----------------------------
(***************************************************************************)
(* Exhaustive, scaled instance of the system machine (Hifitime.tla): the    *)
(* four registers together, every interleaving of the cross-type calls.     *)
(* One tick is half a day: a day is 2 ticks, a week 14, a "century" 14, so  *)
(* elapsed times range over -14..14 (one week either side of a scale's      *)
(* zero, saturation reachable); two scales whose zeros are three ticks      *)
(* apart (so that a difference of epochs of different scales, and the       *)
(* weekday of an epoch whose own calendar day differs from its TAI day,     *)
(* exist).  To keep the product of the four registers explorable a series   *)
(* is consumed to its end before other calls are made and is dropped once   *)
(* exhausted (the free interleaving of next() with everything else is what  *)
(* Gen_Hifitime samples and the code replays).  The values returned by the  *)
(* calls are outputs only and are hidden from the state graph by the VIEW.  *)
(*                                                                         *)
(* Checked: the system laws of Hifitime.tla as action properties - a        *)
(* difference is inverted by adding it back (C04), floor by the register    *)
(* step (C14), the items of a series built from the registers (C15), next   *)
(* and previous land on the weekday asked for 1..7 days away (C16), weeks   *)
(* and time of week recompose the epoch (C20) - in every reachable state.   *)
(***************************************************************************)
EXTENDS Integers, Sequences, FiniteSets, TLC

VARIABLES d, out, e, eout, ser, sout, w, wout

Sgn(x) == IF x < 0 THEN -1 ELSE IF x = 0 THEN 0 ELSE 1
AbsI(x) == IF x < 0 THEN -x ELSE x
TQuot(a, b) == Sgn(a) * Sgn(b) * (AbsI(a) \div AbsI(b))
RefC == [ts \in 0..8 |-> IF ts = 5 THEN 3 ELSE 0]

H == INSTANCE Hifitime WITH
       NPC <- 14, CMIN <- -1, CMAX <- 0,
       N <- LAMBDA x : x, I <- LAMBDA x : x,
       Add <- LAMBDA a, b : a + b, Sub <- LAMBDA a, b : a - b, Mul <- LAMBDA a, b : a * b,
       QuotT <- TQuot, DivF <- LAMBDA a, b : a \div b, ModF <- LAMBDA a, b : a % b,
       Lt <- LAMBDA a, b : a < b, Le <- LAMBDA a, b : a <= b,
       U <- <<1, 1, 1, 1, 1, 1, 2, 14, 14>>,
       Ref <- RefC, Leap <- <<>>,
       GregDay <- [ts \in 0..8 |-> 0], GregTod <- [ts \in 0..8 |-> 0],
       DynCenter <- LAMBDA ts, v : v, DynTol <- 0, FarTol <- 0

Dom    == H!MinV .. H!MaxV
Scales == {0, 5}
vars   == <<d, out, e, eout, ser, sout, w, wout>>
Alive  == sout \notin {<<"init">>, <<"none">>}
Others == {H!Ep(0, -5), H!Ep(0, 2), H!Ep(5, 0), H!Ep(5, 9)}
TaiOf(x) == H!Ep(0, x.v + RefC[x.ts])          \* both scales are uniform: one candidate

Init == H!HInit
Take == Alive /\ H!HTake
Drop == sout = <<"none">> /\ ser' = H!NoSeries /\ sout' = <<"init">> /\ UNCHANGED <<d, out, e, eout, w, wout>>
Free ==
  /\ sout = <<"init">>
  /\ \/ \E c \in -1..0, n \in {0, 1, 5, 13, 14, 16} : H!HLoadD(c, n)
     \/ \E ts \in Scales, c \in -1..0, n \in {0, 1, 2, 7, 13} : H!HLoadE(ts, c, n)
     \/ \E u \in {0, 3, 6, 9} : H!HLoadW(u)
     \/ \E ts2 \in Scales : H!HToScale(ts2, H!Ep(ts2, e.v + RefC[e.ts] - RefC[ts2]))
     \/ H!HNegD
     \/ \E q \in {2, 3} : H!HMulD(q)
     \/ \E f \in Others : H!HDiff(f, H!Ep(e.ts, f.v + RefC[f.ts] - RefC[e.ts]))
     \/ H!HAddReg \/ H!HSubReg \/ H!HFloorReg
     \/ \E r \in Dom : H!HCeilReg(r) \/ H!HRoundReg(r)
     \/ \E n \in {0, 2, 3}, incl \in BOOLEAN : d \in 1..5 /\ H!HSeries(n, incl)
     \/ H!HWeekdayOf(TaiOf(e))
     \/ H!HNextW(TaiOf(e)) \/ H!HPrevW(TaiOf(e))
     \/ \E b \in 0..6 : H!HDaysTo(b)
     \/ H!HTowOf
     \/ \E wk \in 0..1 : H!HFromTow(wk)
Next == Take \/ Drop \/ Free
Spec == Init /\ [][Next]_vars /\ WF_vars(Take)

View == <<d, e, ser, sout, w>>
TypeOK == d \in Dom /\ e.v \in Dom /\ e.ts \in Scales /\ w \in 0..6

(* the system laws, on every transition of the kind they speak about *)
IsDiffStep  == out'[1] = "dur" /\ eout'[1] = "dur" /\ UNCHANGED <<e, ser, w>> /\ eout' # eout
P_Diff == [][ \A f \in Others :
                H!HDiff(f, H!Ep(e.ts, f.v + RefC[f.ts] - RefC[e.ts]))
                  => H!LawDiff(e, H!Ep(e.ts, f.v + RefC[f.ts] - RefC[e.ts]), d') ]_vars
P_Floor == [][ H!HFloorReg => H!LawFloorReg(e, e', d) ]_vars
P_Take  == [][ (Take /\ sout'[1] = "some") => (H!LawTake(ser, ser', e') /\ e' = sout'[2]) ]_vars
P_Next  == [][ H!HNextW(TaiOf(e)) => (H!LawNext(e, e') /\ ((e.v + 14) \in Dom => H!WeekdayIn(0, TaiOf(e').v) = w)) ]_vars
P_Prev  == [][ H!HPrevW(TaiOf(e)) => (H!LawPrev(e, e') /\ ((e.v - 14) \in Dom => H!WeekdayIn(0, TaiOf(e').v) = w)) ]_vars
(* d := time of week of e, then e := from_time_of_week(same week, d) gives e back *)
P_Tow   == [][ H!HTowOf => (d' \in 0..13 /\ H!FromTOW(eout'[2][1], d') = e.v) ]_vars
(* the days from w forward to b, added to an epoch whose weekday is w, give an epoch whose weekday is b *)
P_DaysTo == [][ \A b \in 0..6 : H!HDaysTo(b) => (d' \in {2 * k : k \in 0..6} /\ (w + d' \div 2) % 7 = b) ]_vars
(* a series built from the registers, once consumed, has left e on its last item: start + (count-1)*step *)
P_Consumed == [][ (Take /\ sout'[1] = "none" /\ ser.k > 0)
                    => (e.v = ser.start.v + (ser.k - 1) * ser.step /\ e.ts = ser.start.ts
                        /\ ser.k = H!CountOf(ser)) ]_vars
(* control: the exhaustion rule as found in the code (the saturating product k * step compared with the span)   *)
(* never ends an inclusive series whose span is the largest duration - no k makes the product exceed it - while *)
(* the rule of the specification (the exact product) ends every series; TLC refutes the former here, which is   *)
(* how finding F36 showed up (as a state space that never closed)                                                *)
ASSUME \A step \in 1..14 : \A kk \in 0..60 : ~(H!MaxV < H!DMulI(step, kk))
ASSUME \A step \in 1..14 : \E kk \in 0..15 : H!MaxV < step * kk
(* liveness: a series that was started is exhausted *)
P_Exhausts == Alive ~> (sout = <<"none">>)
=============================================================================
