---------------------------- MODULE DurationText ----------------------------
(***************************************************************************)
(* The text forms of a duration (DESIGN.md, Appendix A.6; C11): what        *)
(* Display prints, and the documented input grammar (unit spellings,        *)
(* decimal values, [+-]HH:MM[:SS] offsets) with the value each denotes.     *)
(***************************************************************************)
EXTENDS EpochText

CONSTANTS
  F64MulUnit(_, _)   \* (decimal literal as <<integer digits, fraction digits>>, unit 1..9) -> duration value:
                     \* the literal rounded to the nearest double, times the unit factor rounded to the
                     \* nearest double, truncated toward zero to whole nanoseconds (the rule of C18)

(* "0 ns", or [-] then the non-zero components with their unit names, single spaces in between *)
UnitWord(k, n) ==
  CASE k = 2 -> IF n > 1 THEN <<100, 97, 121, 115>> ELSE <<100, 97, 121>>     \* days | day
    [] k = 3 -> <<104>>                                                        \* h
    [] k = 4 -> <<109, 105, 110>>                                              \* min
    [] k = 5 -> <<115>>                                                        \* s
    [] k = 6 -> <<109, 115>>                                                   \* ms
    [] k = 7 -> <<cMu, 115>>                                                   \* μs
    [] OTHER -> <<110, 115>>                                                   \* ns
RECURSIVE ShowFrom(_, _, _)
ShowFrom(x, k, first) ==
  IF k > 8 THEN <<>>
  ELSE IF I(x[k]) = 0 THEN ShowFrom(x, k + 1, first)
  ELSE (IF first THEN <<>> ELSE <<cSpace>>) \o Dec(I(x[k])) \o <<cSpace>> \o UnitWord(k, I(x[k]))
       \o ShowFrom(x, k + 1, FALSE)
Show(v) ==
  IF v = Z THEN <<48, cSpace, 110, 115>>
  ELSE (IF Lt(v, Z) THEN <<cDash>> ELSE <<>>) \o ShowFrom(Decompose(v), 2, TRUE)

-----------------------------------------------------------------------------
(* the 25 unit spellings of the parser's table -> unit index (1 = ns ... 7 = day) *)
UnitOfWord(w) ==
  CASE w \in {<<100>>, <<100,97,121,115>>, <<100,97,121>>} -> 7                                        \* d days day
    [] w \in {<<104>>, <<104,111,117,114,115>>, <<104,111,117,114>>, <<104,114>>} -> 6                 \* h hours hour hr
    [] w \in {<<109,105,110>>, <<109,105,110,115>>, <<109,105,110,117,116,101>>, <<109,105,110,117,116,101,115>>} -> 5
    [] w \in {<<115>>, <<115,101,99,111,110,100>>, <<115,101,99,111,110,100,115>>, <<115,101,99>>} -> 4 \* s second seconds sec
    [] w \in {<<109,115>>, <<109,105,108,108,105,115,101,99,111,110,100>>, <<109,105,108,108,105,115,101,99,111,110,100,115>>} -> 3
    [] w \in {<<cMu,115>>, <<117,115>>, <<109,105,99,114,111,115,101,99,111,110,100>>, <<109,105,99,114,111,115,101,99,111,110,100,115>>} -> 2
    [] w \in {<<110,115>>, <<110,97,110,111,115,101,99,111,110,100>>, <<110,97,110,111,115,101,99,111,110,100,115>>} -> 1
    [] OTHER -> 0

(* split at single spaces *)
RECURSIVE SplitSp(_, _, _)
SplitSp(s, i, cur) ==
  IF i > Len(s) THEN <<cur>>
  ELSE IF s[i] = cSpace THEN <<cur>> \o SplitSp(s, i + 1, <<>>)
  ELSE SplitSp(s, i + 1, Append(cur, s[i]))

(* decimal literal: digits [ '.' digits ], at least one digit before the point *)
IsAllDigits(w) == w # <<>> /\ \A i \in 1..Len(w) : IsDigit(w[i])
DotPos(w) == IF \E i \in 1..Len(w) : w[i] = cDot THEN CHOOSE i \in 1..Len(w) : w[i] = cDot /\ \A j \in 1..(i - 1) : w[j] # cDot ELSE 0
IsDecimal(w) ==
  LET p == DotPos(w) IN
    IF p = 0 THEN IsAllDigits(w) /\ Len(w) <= 15
    ELSE IsAllDigits(SubSeq(w, 1, p - 1)) /\ IsAllDigits(SubSeq(w, p + 1, Len(w))) /\ Len(w) <= 18
DecimalOf(w) ==
  LET p == DotPos(w) IN
    IF p = 0 THEN <<[i \in 1..Len(w) |-> w[i] - 48], <<>>>>
    ELSE <<[i \in 1..(p - 1) |-> w[i] - 48], [i \in 1..(Len(w) - p) |-> w[p + i] - 48]>>

(* duration sentence: [-|+] number SP unit { SP number SP unit }, each unit slot at most once *)
NotDur == [g |-> FALSE]
ParseUnits(s0) ==
  LET s    == Trim(s0)
      neg  == s # <<>> /\ s[1] = cDash
      body == IF neg THEN Tail(s) ELSE s
      ws   == SplitSp(body, 1, <<>>)
      n    == Len(ws) \div 2
  IN
  IF body = <<>> \/ Len(ws) % 2 # 0 \/ n = 0
     \/ (\E k \in 1..n : ~IsDecimal(ws[2 * k - 1]) \/ UnitOfWord(ws[2 * k]) = 0)
     \/ (\E j, k \in 1..n : j # k /\ UnitOfWord(ws[2 * j]) = UnitOfWord(ws[2 * k]))
  THEN NotDur
  ELSE [g |-> TRUE, neg |-> neg,
        terms |-> [k \in 1..n |-> <<DecimalOf(ws[2 * k - 1]), UnitOfWord(ws[2 * k])>>]]
RECURSIVE SumTerms(_, _)
SumTerms(terms, k) == IF k > Len(terms) THEN Z
                      ELSE DAdd(F64MulUnit(terms[k][1], terms[k][2]), SumTerms(terms, k + 1))
(* the parser stores the components in the order day, h, min, s, ms, us, ns and adds them up *)
UnitsValue(p) ==
  LET ordered == [u \in 1..7 |-> IF \E k \in 1..Len(p.terms) : p.terms[k][2] = 8 - u
                                 THEN (CHOOSE k \in 1..Len(p.terms) : p.terms[k][2] = 8 - u) ELSE 0]
      vals == [u \in 1..7 |-> IF ordered[u] = 0 THEN Z ELSE F64MulUnit(p.terms[ordered[u]][1], 8 - u)]
      sum == DAdd(DAdd(DAdd(DAdd(DAdd(DAdd(vals[1], vals[2]), vals[3]), vals[4]), vals[5]), vals[6]), vals[7])
  IN  IF p.neg THEN DNeg(sum) ELSE sum

(* offset sentence: (+|-) HH [:] MM [ [:] SS ], the colon used consistently *)
NotOff == [g |-> FALSE]
ParseOffset(s0) ==
  LET s == Trim(s0)
      L == Len(s)
  IN
  IF L = 0 \/ s[1] \notin {cPlus, cDash} THEN NotOff
  ELSE IF L \in {5, 7} /\ IsAllDigits(Tail(s))
       THEN [g |-> TRUE, neg |-> s[1] = cDash, h |-> NatAt(s, 2, 2), m |-> NatAt(s, 4, 2),
             sec |-> IF L = 7 THEN NatAt(s, 6, 2) ELSE 0]
  ELSE IF L \in {6, 9} /\ Two(s, 2) /\ s[4] = cColon /\ Two(s, 5) /\ (L = 6 \/ (s[7] = cColon /\ Two(s, 8)))
       THEN [g |-> TRUE, neg |-> s[1] = cDash, h |-> NatAt(s, 2, 2), m |-> NatAt(s, 5, 2),
             sec |-> IF L = 9 THEN NatAt(s, 8, 2) ELSE 0]
  ELSE NotOff
OffsetValue(p) == LET m == Mul(N(p.h * 3600 + p.m * 60 + p.sec), U[4]) IN IF p.neg THEN NegN(m) ELSE m

(* judgement of one parse of string s: ok says a value was returned, r is that value *)
ParseDurationOK(s, ok, r) ==
  LET o == ParseOffset(s)
      u == ParseUnits(s)
  IN  /\ (o.g => (ok /\ r = OffsetValue(o)))
      /\ ((~o.g /\ u.g) => (ok /\ r = UnitsValue(u)))
=============================================================================
