---------------------------- MODULE EpochMachine ----------------------------
(***************************************************************************)
(* The Epoch part of the hifitime API as a register machine: state e (the   *)
(* current epoch, a record [ts, v]) and eout (the value returned by the     *)
(* last call).  One action per public call.  Where the properties admit     *)
(* more than one result (conversion into UTC during an inserted second,     *)
(* conversions that hit a duration bound, ET/TDB within their tolerance)    *)
(* the action takes the result as a parameter and its guard says which      *)
(* results are admissible: the exhaustive configuration draws it from the   *)
(* whole domain, the trace specification binds it to the recorded result.   *)
(***************************************************************************)
EXTENDS EpochCal

CONSTANTS
  DynCenter(_, _),  \* (scale in Dynamic, count v) -> the TAI instant the closed form assigns (carrier)
  DynTol,           \* tolerance of C07 on that instant (carrier)
  FarTol            \* C12: dynamical operands are only compared when further apart than this

VARIABLES e, eout
evars == <<e, eout>>

EInit == e = Ep(TAI, Z) /\ eout = <<"init">>

-----------------------------------------------------------------------------
(* instants, with the dynamical scales through their closed form *)
InstantC(x) == IF x.ts \in Dynamic THEN DynCenter(x.ts, x.v) ELSE Instant(x)
TolOf(ts)   == IF ts \in Dynamic THEN DynTol ELSE Z
NearBy(a, b, tol) == Le(AbsN(Sub(a, b)), tol)

(* r is an admissible result of converting x to scale ts2 *)
ConvAny(x, ts2, r) ==
  IF x.ts \notin Dynamic /\ ts2 \notin Dynamic THEN ConvOK(x, ts2, r)
  ELSE /\ r.ts = ts2 /\ InRange(r.v)
       /\ (ts2 = x.ts => r.v = x.v)
       /\ (ts2 # x.ts /\ InRange(InstantC(x)) /\ InRange(Sub(InstantC(x), NPC)) /\ InRange(Add(InstantC(x), NPC)))
             => \/ NearBy(InstantC(r), InstantC(x), Add(TolOf(x.ts), TolOf(ts2)))
                \/ (ts2 = UTC /\ \E k \in 1..NLeap :                  \* too close to a gap to say
                       NearBy(InstantC(x), Add(LeapT(k), LeapD(k)), Add(LeapD(k), DynTol)))

-----------------------------------------------------------------------------
(* constructors and arithmetic (C04) *)
ELoad(ts, c, n) == e' = Ep(ts, FromParts(c, n))         /\ eout' = <<"epoch", e'>>
EAddD(b)        == e' = Ep(e.ts, DAdd(e.v, b))          /\ eout' = <<"epoch", e'>>
ESubD(b)        == e' = Ep(e.ts, DSub(e.v, b))          /\ eout' = <<"epoch", e'>>
(* e - f: measured in the scale of e, after re-expressing f in it (fc is that re-expression) *)
ESubE(f, fc)    == ConvAny(f, e.ts, fc) /\ UNCHANGED e  /\ eout' = <<"dur", DSub(e.v, fc.v)>>

(* conversion (C05, C06, C07) *)
EToScale(ts2, r) == ConvAny(e, ts2, r) /\ e' = r        /\ eout' = <<"conv", r>>

(* comparison (C12): chronological; c in {-1, 0, 1}.  For dynamical operands the statement    *)
(* only speaks about instants further apart than 100 ns (Far).                                *)
Far(f) == ~NearBy(InstantC(e), InstantC(f), FarTol)
(* each operand can be re-expressed in the scale of the other without hitting a duration bound  *)
(* (one century of margin covers every offset between scales)                                   *)
Roomy(x) == InRange(Sub(InstantC(x), Add(NPC, NPC))) /\ InRange(Add(InstantC(x), Add(NPC, NPC)))
ECmp(f, c) == /\ UNCHANGED e
              /\ (((e.ts \notin Dynamic /\ f.ts \notin Dynamic) \/ e.ts = f.ts \/ Far(f))
                    /\ (e.ts = f.ts \/ (Roomy(e) /\ Roomy(f))))
                   => c = DCmp(InstantC(e), InstantC(f))
              /\ eout' = <<"cmp", c>>

(* floor / ceil / round act on the elapsed time in the epoch's own scale (C14) *)
EFloor(s)    == e' = Ep(e.ts, Floor(e.v, s))             /\ eout' = <<"epoch", e'>>
ECeil(s, r)  == r \in CeilSet(e.v, s)  /\ e' = Ep(e.ts, r) /\ eout' = <<"epoch", e'>>
ERound(s, r) == r \in RoundSet(e.v, s) /\ e' = Ep(e.ts, r) /\ eout' = <<"epoch", e'>>

(* Gregorian construction (C08): ok says whether the call returned a value *)
EFromGreg(ts, y, m, d, hh, mi, ss, ns, ok, r) ==
  /\ (MustAccept(y, m, d, hh, mi, ss, ns) => ok)
  /\ (MustReject(y, m, d, hh, mi, ss, ns) => ~ok)
  /\ (ok /\ MustAccept(y, m, d, hh, mi, ss, ns) /\ ss < 60 /\ InRange(FromFieldsRaw(ts, y, m, d, hh, mi, ss, ns)))
        => r = Ep(ts, FromFieldsRaw(ts, y, m, d, hh, mi, ss, ns))
  /\ (ok /\ MustAccept(y, m, d, hh, mi, ss, ns) /\ ss = 60)
        => (r.ts = ts /\ r.v \in {FromFieldsRaw(ts, y, m, d, hh, mi, 59, ns), FromFieldsRaw(ts, y, m, d, hh, mi, 60, ns)})
  /\ e' = (IF ok THEN r ELSE e)
  /\ eout' = <<"greg", ok>>

(* Gregorian fields of the register in scale ts2 (C09); rc is the register re-expressed in ts2 *)
EToGreg(ts2, rc) == ConvAny(e, ts2, rc) /\ UNCHANGED e /\ eout' = <<"fields", Fields(ts2, rc.v)>>

(* weekday of the civil date in scale ts2 (C16) *)
EWeekday(ts2, rc) == ConvAny(e, ts2, rc) /\ UNCHANGED e /\ eout' = <<"wd", WeekdayIn(ts2, rc.v)>>

(* next / previous occurrence of weekday w (0..6): 1..7 whole days away, same time of day; the *)
(* weekday is that of the TAI calendar date (rc is the register re-expressed in TAI).           *)
ENext(w, rc) == ConvAny(e, TAI, rc) /\
            LET k == (w - WeekdayIn(TAI, rc.v) + 7) % 7 IN
              e' = Ep(e.ts, DAdd(e.v, Mul(N(IF k = 0 THEN 7 ELSE k), NsDay))) /\ eout' = <<"epoch", e'>>
EPrev(w, rc) == ConvAny(e, TAI, rc) /\
            LET k == (WeekdayIn(TAI, rc.v) - w + 7) % 7 IN
              e' = Ep(e.ts, DSub(e.v, Mul(N(IF k = 0 THEN 7 ELSE k), NsDay))) /\ eout' = <<"epoch", e'>>

(* week / time of week (C20) *)
EFromTOW(ts, w, n) == e' = Ep(ts, FromTOW(w, n))        /\ eout' = <<"epoch", e'>>
EToTOW == ~Lt(e.v, Z) /\ UNCHANGED e                    /\ eout' = <<"tow", ToTOW(e.v)>>
=============================================================================
