SPECIFICATION GSpec
CONSTANT Depth = 16
INVARIANT Emit
CHECK_DEADLOCK FALSE
