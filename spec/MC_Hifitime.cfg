SPECIFICATION Spec
VIEW View
INVARIANT TypeOK
PROPERTIES P_Diff P_Floor P_Take P_Next P_Prev P_Tow P_DaysTo P_Consumed P_Exhausts
CHECK_DEADLOCK FALSE
