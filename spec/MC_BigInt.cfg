INIT Init
NEXT Next
