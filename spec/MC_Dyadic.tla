------------------------------ MODULE MC_Dyadic ------------------------------
(* Self-check of the exact double arithmetic (Dyadic) against known IEEE-754 facts. *)
EXTENDS Integers, Sequences, TLC
D == INSTANCE Dyadic
B == INSTANCE BigInt
Mag(ds) == B!MagOfDigits(ds)
P(k) == B!Pow2Mag(k)

ASSUME \A k \in {0, 1, 2, 12, 13, 14, 26, 52, 53, 63, 64, 100, 127} : D!BitLen(P(k)) = k + 1
ASSUME \A k \in {1, 2, 13, 14, 53, 64, 127} : D!BitLen(B!SubMag(P(k), <<1>>)) = k
ASSUME D!BitLen(<<>>) = 0
\* 0.1 = 0x3FB999999999999A, 1/3 = 0x3FD5555555555555
ASSUME D!RN53(<<1>>, <<10>>) = <<Mag(<<7,2,0,5,7,5,9,4,0,3,7,9,2,7,9,4>>), -56>>
ASSUME D!RN53(<<1>>, <<3>>)  = <<Mag(<<6,0,0,4,7,9,9,5,0,3,1,6,0,6,6,1>>), -54>>
\* ties to even at 2^53 + 1 and 2^53 + 3
ASSUME D!RN53(B!AddMag(P(53), <<1>>), <<1>>) = <<P(52), 1>>
ASSUME D!RN53(B!AddMag(P(53), <<3>>), <<1>>) = <<B!AddMag(P(52), <<2>>), 1>>
\* exact values stay exact
ASSUME D!RN53(<<5>>, <<1>>) = <<B!MulMag(<<5>>, P(50)), -50>>
\* 10.598 days: the literal rounds to 5966143606359065 * 2^-49; times 8.64e13 ns
ASSUME D!DecToDouble(<< <<1, 0>>, <<5, 9, 8>> >>).m = Mag(<<5,9,6,6,1,4,3,6,0,6,3,5,9,0,6,5>>)
ASSUME D!DecToDouble(<< <<1, 0>>, <<5, 9, 8>> >>).e = -49
\* truncation
ASSUME D!TruncMag(<<7>>, -1) = <<3>> /\ D!TruncMag(<<7>>, 2) = <<28>> /\ D!TruncMag(<<1>>, -3) = <<>>
\* 0.3 s = 299999999 ns (0.3 rounds below 3/10; times 1e9 rounds to 300000000 - 2^-25... truncates)
ASSUME LET x == D!DecToDouble(<< <<0>>, <<3>> >>) IN D!MulTrunc(x, B!Pow10Mag(9)) \in {B!FromInt(300000000), B!FromInt(299999999)}
\* within-ulp predicate: 1/3 is within 1 ulp of its own rounding, 0.34 is not within 4 ulp of 1/3
ASSUME LET r == D!RN53(<<1>>, <<3>>) IN
         D!WithinUlps([k |-> "fin", neg |-> FALSE, m |-> r[1], e |-> r[2]], B!FromInt(1), <<3>>, <<>>, 1)
ASSUME LET r == D!RN53(<<34>>, <<100>>) IN
         ~D!WithinUlps([k |-> "fin", neg |-> FALSE, m |-> r[1], e |-> r[2]], B!FromInt(1), <<3>>, <<>>, 4)
\* the defining property of round-to-nearest-even, on a grid of rationals p/q: with r = <<mant, e>>,
\* 2^52 <= mant <= 2^53 and |p/q - mant 2^e| <= 2^e / 2, ties only with an even mantissa
NearestOK(p, q) ==
  LET r  == D!RN53(p, q)
      sc == D!Scaled(p, q, r[2])                       \* p/q * 2^-e = sc[1] / sc[2]
      df == IF B!CmpMag(sc[1], B!MulMag(r[1], sc[2])) >= 0 THEN B!SubMag(sc[1], B!MulMag(r[1], sc[2]))
            ELSE B!SubMag(B!MulMag(r[1], sc[2]), sc[1])       \* |p/q 2^-e - mant| * sc[2]
      c  == B!CmpMag(B!MulSmallMag(df, 2), sc[2])
  IN  /\ B!CmpMag(r[1], P(52)) >= 0 /\ B!CmpMag(r[1], P(53)) <= 0
      /\ (c < 0 \/ (c = 0 /\ r[1][1] % 2 = 0))
ASSUME \A p \in 1..40, q \in 1..25 : NearestOK(B!MagOfNat(p), B!MagOfNat(q))
ASSUME \A k \in {53, 54, 55, 60, 64, 100} : \A dlt \in 0..9 :
         /\ NearestOK(B!AddMag(P(k), B!MagOfNat(dlt)), <<1>>)
         /\ NearestOK(B!AddMag(P(k), B!MagOfNat(dlt)), <<7>>)
         /\ NearestOK(B!AddMag(B!MulSmallMag(P(k), 3), B!MagOfNat(dlt)), P(k - 50))
\* the shift-based fast path for power-of-two denominators has the same value as the generic rounding
SameValue(a, b) == LET m == IF a[2] < b[2] THEN a[2] ELSE b[2] IN
                     B!MulMag(a[1], P(a[2] - m)) = B!MulMag(b[1], P(b[2] - m))
ASSUME \A k \in {0, 1, 5, 12, 13, 14, 26, 40, 53, 77, 120} : \A dlt \in 0..12 : \A b \in {1, 20, 52, 53, 54, 55, 56, 66, 67, 90, 130} :
         /\ SameValue(D!RN53P2(B!AddMag(P(b), B!MagOfNat(dlt)), k), D!RN53(B!AddMag(P(b), B!MagOfNat(dlt)), P(k)))
         /\ SameValue(D!RN53P2(B!SubMag(P(b), B!MagOfNat(dlt % 2)), k), D!RN53(B!SubMag(P(b), B!MagOfNat(dlt % 2)), P(k)))
         /\ SameValue(D!RN53P2(B!AddMag(B!MulSmallMag(P(b), 3), B!MagOfNat(dlt)), k), D!RN53(B!AddMag(B!MulSmallMag(P(b), 3), B!MagOfNat(dlt)), P(k)))
ASSUME \A k \in {0, 1, 12, 13, 14, 27, 60} : \A n \in {1, 2, 3, 8191, 8192, 8193, 123456789} :
         /\ D!Shr(B!MagOfNat(n), k)[1] = B!DivModMag(B!MagOfNat(n), P(k))[1]
         /\ D!Shr(B!MagOfNat(n), k)[2] = (B!DivModMag(B!MagOfNat(n), P(k))[2] # <<>>)
VARIABLE x
Init == x = 0
Next == UNCHANGED x
=============================================================================
