------------------------------ MODULE MC_Dyadic ------------------------------
(* Self-check of the exact double arithmetic (Dyadic) against known IEEE-754 facts. *)
EXTENDS Integers, Sequences, TLC
D == INSTANCE Dyadic
B == INSTANCE BigInt
Mag(ds) == B!MagOfDigits(ds)
P(k) == B!Pow2Mag(k)

ASSUME \A k \in {0, 1, 2, 12, 13, 14, 26, 52, 53, 63, 64, 100, 127} : D!BitLen(P(k)) = k + 1
ASSUME \A k \in {1, 2, 13, 14, 53, 64, 127} : D!BitLen(B!SubMag(P(k), <<1>>)) = k
ASSUME D!BitLen(<<>>) = 0
\* 0.1 = 0x3FB999999999999A, 1/3 = 0x3FD5555555555555
ASSUME D!RN53(<<1>>, <<10>>) = <<Mag(<<7,2,0,5,7,5,9,4,0,3,7,9,2,7,9,4>>), -56>>
ASSUME D!RN53(<<1>>, <<3>>)  = <<Mag(<<6,0,0,4,7,9,9,5,0,3,1,6,0,6,6,1>>), -54>>
\* ties to even at 2^53 + 1 and 2^53 + 3
ASSUME D!RN53(B!AddMag(P(53), <<1>>), <<1>>) = <<P(52), 1>>
ASSUME D!RN53(B!AddMag(P(53), <<3>>), <<1>>) = <<B!AddMag(P(52), <<2>>), 1>>
\* exact values stay exact
ASSUME D!RN53(<<5>>, <<1>>) = <<B!MulMag(<<5>>, P(50)), -50>>
\* 10.598 days: the literal rounds to 5966143606359065 * 2^-49; times 8.64e13 ns
ASSUME D!DecToDouble(<< <<1, 0>>, <<5, 9, 8>> >>).m = Mag(<<5,9,6,6,1,4,3,6,0,6,3,5,9,0,6,5>>)
ASSUME D!DecToDouble(<< <<1, 0>>, <<5, 9, 8>> >>).e = -49
\* truncation
ASSUME D!TruncMag(<<7>>, -1) = <<3>> /\ D!TruncMag(<<7>>, 2) = <<28>> /\ D!TruncMag(<<1>>, -3) = <<>>
\* 0.3 s = 299999999 ns (0.3 rounds below 3/10; times 1e9 rounds to 300000000 - 2^-25... truncates)
ASSUME LET x == D!DecToDouble(<< <<0>>, <<3>> >>) IN D!MulTrunc(x, B!Pow10Mag(9)) \in {B!FromInt(300000000), B!FromInt(299999999)}
\* within-ulp predicate: 1/3 is within 1 ulp of its own rounding, 0.34 is not within 4 ulp of 1/3
ASSUME LET r == D!RN53(<<1>>, <<3>>) IN
         D!WithinUlps([k |-> "fin", neg |-> FALSE, m |-> r[1], e |-> r[2]], B!FromInt(1), <<3>>, <<>>, 1)
ASSUME LET r == D!RN53(<<34>>, <<100>>) IN
         ~D!WithinUlps([k |-> "fin", neg |-> FALSE, m |-> r[1], e |-> r[2]], B!FromInt(1), <<3>>, <<>>, 4)
VARIABLE x
Init == x = 0
Next == UNCHANGED x
=============================================================================
