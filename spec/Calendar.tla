------------------------------ MODULE Calendar ------------------------------
(***************************************************************************)
(* The proleptic Gregorian calendar with astronomical year numbering        *)
(* (DESIGN.md, Appendix A.4), on TLC's native integers: every day number in *)
(* the range of a hifitime Duration (+/- 1.2e9 days) fits in 32 bits.       *)
(*                                                                         *)
(* Closed forms (days from civil / civil from days, after H. Hinnant's      *)
(* public-domain algorithms), written independently of the loops of the     *)
(* Rust implementation.  Day number 0 is 1970-01-01 in these two operators; *)
(* hifitime's own day numbers (N) count from 1900-01-01.                    *)
(***************************************************************************)
EXTENDS Integers, Sequences

IsLeap(y) == (y % 4 = 0 /\ y % 100 # 0) \/ (y % 400 = 0)

DaysInMonth(y, m) ==
  CASE m \in {1, 3, 5, 7, 8, 10, 12} -> 31
    [] m \in {4, 6, 9, 11}           -> 30
    [] m = 2                         -> IF IsLeap(y) THEN 29 ELSE 28
    [] OTHER                         -> 0

DaysInYear(y) == IF IsLeap(y) THEN 366 ELSE 365

(* days since 1970-01-01 of the civil date y-m-d (TLA+ \div and % are floored) *)
DaysFromCivil(y, m, d) ==
  LET yy  == IF m <= 2 THEN y - 1 ELSE y
      era == yy \div 400
      yoe == yy - era * 400                                  \* 0..399
      mp  == IF m > 2 THEN m - 3 ELSE m + 9                   \* March = 0
      doy == (153 * mp + 2) \div 5 + d - 1                    \* 0..365
      doe == yoe * 365 + yoe \div 4 - yoe \div 100 + doy      \* 0..146096
  IN  era * 146097 + doe - 719468

(* <<y, m, d>> of a day number since 1970-01-01 *)
CivilFromDays(z0) ==
  LET z   == z0 + 719468
      era == z \div 146097
      doe == z - era * 146097                                 \* 0..146096
      yoe == (doe - doe \div 1460 + doe \div 36524 - doe \div 146096) \div 365
      y   == yoe + era * 400
      doy == doe - (365 * yoe + yoe \div 4 - yoe \div 100)    \* 0..365
      mp  == (5 * doy + 2) \div 153                           \* 0..11
      d   == doy - (153 * mp + 2) \div 5 + 1
      m   == IF mp < 10 THEN mp + 3 ELSE mp - 9
  IN  <<IF m <= 2 THEN y + 1 ELSE y, m, d>>

D1900 == DaysFromCivil(1900, 1, 1)
(* hifitime day number: days from 1900-01-01 *)
N(y, m, d)   == DaysFromCivil(y, m, d) - D1900
CivilOfN(n)  == CivilFromDays(n + D1900)

(* weekday, Monday = 0 ... Sunday = 6; 1900-01-01 was a Monday *)
WeekdayOfN(n) == n % 7

(* 1-based day of year *)
DayOfYear(y, m, d) == N(y, m, d) - N(y, 1, 1) + 1

ValidDate(y, m, d) == m \in 1..12 /\ d >= 1 /\ d <= DaysInMonth(y, m)

MonthLong  == <<"January", "February", "March", "April", "May", "June", "July", "August",
                "September", "October", "November", "December">>
WeekdayLong == <<"Monday", "Tuesday", "Wednesday", "Thursday", "Friday", "Saturday", "Sunday">>
=============================================================================
