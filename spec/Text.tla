-------------------------------- MODULE Text --------------------------------
(***************************************************************************)
(* Strings as sequences of Unicode code points (the harness logs every      *)
(* string that way), and the small vocabulary needed to specify hifitime's  *)
(* text forms: zero-padded decimals, literal words, decimal scanning.       *)
(***************************************************************************)
EXTENDS Integers, Sequences

(* code points of the characters that occur in the formats *)
cDash == 45    cColon == 58   cDot == 46    cT == 84      cSpace == 32   cZ == 90
cPlus == 43    cComma == 44   cPct == 37    cQuest == 63  cMu == 956     c0 == 48
cLowZ == 122

IsDigit(c) == c >= 48 /\ c <= 57

(* decimal digits of a natural number, most significant first; <<0>> for 0 *)
RECURSIVE DigitsOfNat(_)
DigitsOfNat(n) == IF n < 10 THEN <<n>> ELSE Append(DigitsOfNat(n \div 10), n % 10)
Codes(ds) == [i \in 1..Len(ds) |-> 48 + ds[i]]
Zeros(k) == [i \in 1..k |-> 48]
(* n >= 0 zero-padded to at least w digits (Rust {:0w}) *)
Pad(n, w) == LET ds == DigitsOfNat(n) IN
               (IF Len(ds) < w THEN Zeros(w - Len(ds)) ELSE <<>>) \o Codes(ds)
(* Rust {:0w} of a possibly negative integer: the sign counts in the width *)
PadSigned(n, w) == IF n >= 0 THEN Pad(n, w) ELSE <<cDash>> \o Pad(-n, w - 1)
Dec(n) == Codes(DigitsOfNat(n))

(* ASCII words used in the text forms, as code point sequences *)
ScaleName(ts) ==
  CASE ts = 0 -> <<84, 65, 73>>              \* TAI
    [] ts = 1 -> <<84, 84>>                  \* TT
    [] ts = 2 -> <<69, 84>>                  \* ET
    [] ts = 3 -> <<84, 68, 66>>              \* TDB
    [] ts = 4 -> <<85, 84, 67>>              \* UTC
    [] ts = 5 -> <<71, 80, 83, 84>>          \* GPST
    [] ts = 6 -> <<71, 83, 84>>              \* GST
    [] ts = 7 -> <<66, 68, 84>>              \* BDT
    [] OTHER  -> <<81, 90, 83, 83, 84>>      \* QZSST
(* accepted spellings of a time scale on input: the nine names and GPS GAL BDS QZSS *)
ScaleOfName(w) ==
  CASE w = <<84, 65, 73>> -> 0 [] w = <<84, 84>> -> 1 [] w = <<69, 84>> -> 2 [] w = <<84, 68, 66>> -> 3
    [] w = <<85, 84, 67>> -> 4 [] w = <<71, 80, 83, 84>> -> 5 [] w = <<71, 80, 83>> -> 5
    [] w = <<71, 83, 84>> -> 6 [] w = <<71, 65, 76>> -> 6 [] w = <<66, 68, 84>> -> 7 [] w = <<66, 68, 83>> -> 7
    [] w = <<81, 90, 83, 83, 84>> -> 8 [] w = <<81, 90, 83, 83>> -> 8 [] OTHER -> -1

MonthLongC == << <<74,97,110,117,97,114,121>>, <<70,101,98,114,117,97,114,121>>, <<77,97,114,99,104>>,
                 <<65,112,114,105,108>>, <<77,97,121>>, <<74,117,110,101>>, <<74,117,108,121>>,
                 <<65,117,103,117,115,116>>, <<83,101,112,116,101,109,98,101,114>>, <<79,99,116,111,98,101,114>>,
                 <<78,111,118,101,109,98,101,114>>, <<68,101,99,101,109,98,101,114>> >>
WeekdayLongC == << <<77,111,110,100,97,121>>, <<84,117,101,115,100,97,121>>, <<87,101,100,110,101,115,100,97,121>>,
                   <<84,104,117,114,115,100,97,121>>, <<70,114,105,100,97,121>>, <<83,97,116,117,114,100,97,121>>,
                   <<83,117,110,100,97,121>> >>
First3(w) == SubSeq(w, 1, 3)

(* scanning: number of consecutive digits of s starting at position i *)
RECURSIVE DigitRun(_, _)
DigitRun(s, i) == IF i <= Len(s) /\ IsDigit(s[i]) THEN 1 + DigitRun(s, i + 1) ELSE 0
(* value of the k digits of s starting at i (k <= 9 so that it fits a TLC integer) *)
RECURSIVE NatAt(_, _, _)
NatAt(s, i, k) == IF k = 0 THEN 0 ELSE NatAt(s, i, k - 1) * 10 + (s[i + k - 1] - 48)
Pow10N(k) == CASE k = 0 -> 1 [] k = 1 -> 10 [] k = 2 -> 100 [] k = 3 -> 1000 [] k = 4 -> 10000 [] k = 5 -> 100000
               [] k = 6 -> 1000000 [] k = 7 -> 10000000 [] k = 8 -> 100000000 [] OTHER -> 1000000000
At(s, i) == IF i >= 1 /\ i <= Len(s) THEN s[i] ELSE -1
(* strip leading and trailing spaces *)
RECURSIVE TrimL(_)
TrimL(s) == IF s # <<>> /\ s[1] = cSpace THEN TrimL(Tail(s)) ELSE s
RECURSIVE TrimR(_)
TrimR(s) == IF s # <<>> /\ s[Len(s)] = cSpace THEN TrimR(SubSeq(s, 1, Len(s) - 1)) ELSE s
Trim(s) == TrimR(TrimL(s))
=============================================================================
