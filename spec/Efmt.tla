-------------------------------- MODULE Efmt --------------------------------
(***************************************************************************)
(* strftime-style formats (DESIGN.md, Appendix A.7; C19).                   *)
(*                                                                         *)
(* A format is a sequence of items [tok, s1, s2, opt]: the token letter,    *)
(* the zero to two separator characters that follow it (-1 = absent) and    *)
(* the optional flag ('?').  ParseFormat reads the textual form; Render     *)
(* prints an epoch; item k's separators are written between item k and      *)
(* item k+1 only when item k+1 is printed.                                  *)
(***************************************************************************)
EXTENDS DurationText

(* token letters: Y y m b B d j J A a H M S f T w z *)
TokenLetters == {89, 121, 109, 98, 66, 100, 106, 74, 65, 97, 72, 77, 83, 102, 84, 119, 122}
tY == 89  ty == 121  tm == 109  tb == 98  tB == 66  td == 100  tj == 106  tJ == 74  tA == 65  ta == 97
tH == 72  tM == 77   tS == 83   tf == 102 tT == 84  tw == 119  tz == 122
MaxTokens == 16

(* split at every '%': the pieces between them *)
RECURSIVE SplitPct(_, _, _)
SplitPct(s, i, cur) ==
  IF i > Len(s) THEN <<cur>>
  ELSE IF s[i] = cPct THEN <<cur>> \o SplitPct(s, i + 1, <<>>)
  ELSE SplitPct(s, i + 1, Append(cur, s[i]))

(* one piece -> one item: first character the token, the next two characters separators or '?' *)
ItemOf(p) ==
  LET a == IF Len(p) >= 2 THEN p[2] ELSE -1
      b == IF Len(p) >= 3 THEN p[3] ELSE -1
      opt == a = cQuest \/ b = cQuest
      a1 == IF a = cQuest THEN -1 ELSE a
      b1 == IF b = cQuest THEN -1 ELSE b
  IN  [tok |-> p[1], s1 |-> IF a1 = -1 THEN b1 ELSE a1, s2 |-> IF a1 = -1 THEN -1 ELSE b1, opt |-> opt]

NoFormat == [ok |-> FALSE]
ParseFormat(s) ==
  LET pieces == SelectSeq(SplitPct(s, 1, <<>>), LAMBDA p : p # <<>>) IN
    IF (\E i \in 1..Len(pieces) : pieces[i][1] \notin TokenLetters) \/ Len(pieces) > MaxTokens
    THEN NoFormat
    ELSE [ok |-> TRUE, items |-> [i \in 1..Len(pieces) |-> ItemOf(pieces[i])]]

(* the documented strings of the predefined formats (efmt::consts) *)
DocISO8601       == <<37,89,45,37,109,45,37,100,84,37,72,58,37,77,58,37,83,46,37,102,32,37,84>>       \* %Y-%m-%dT%H:%M:%S.%f %T
DocISO8601_FLEX  == <<37,89,45,37,109,45,37,100,84,37,72,58,37,77,58,37,83,46,37,102,63,32,37,84,63>> \* %Y-%m-%dT%H:%M:%S.%f? %T?
DocISO8601_DATE  == <<37,89,45,37,109,45,37,100>>                                                     \* %Y-%m-%d
DocISO8601_ORD   == <<37,89,45,37,106>>                                                               \* %Y-%j
DocRFC2822       == <<37,97,44,32,37,100,32,37,98,32,37,89,32,37,72,58,37,77,58,37,83>>               \* %a, %d %b %Y %H:%M:%S
DocRFC2822_LONG  == <<37,65,44,32,37,100,32,37,66,32,37,89,32,37,72,58,37,77,58,37,83>>               \* %A, %d %B %Y %H:%M:%S
DocRFC3339       == <<37,89,45,37,109,45,37,100,84,37,72,58,37,77,58,37,83,46,37,102,37,122>>         \* %Y-%m-%dT%H:%M:%S.%f%z
DocRFC3339_FLEX  == <<37,89,45,37,109,45,37,100,84,37,72,58,37,77,58,37,83,46,37,102,63,37,122>>      \* %Y-%m-%dT%H:%M:%S.%f?%z
DocOf(name) ==
  CASE name = "ISO8601" -> DocISO8601 [] name = "ISO8601_FLEX" -> DocISO8601_FLEX
    [] name = "ISO8601_DATE" -> DocISO8601_DATE [] name = "ISO8601_ORDINAL" -> DocISO8601_ORD
    [] name = "RFC2822" -> DocRFC2822 [] name = "RFC2822_LONG" -> DocRFC2822_LONG
    [] name = "RFC3339" -> DocRFC3339 [] name = "RFC3339_FLEX" -> DocRFC3339_FLEX [] OTHER -> <<>>

(* tokens whose rendering the statement fixes; %J, %w and %y are rendered but not judged *)
Judged(tok) == tok \notin {tJ, tw, ty}

(* +HH:MM of the formatter's offset (a duration value); seconds appended when non-zero *)
OffsetText(off) ==
  LET x == Decompose(off)
      h == I(x[3]) + 24 * I(x[2])
  IN  <<IF x[1] < 0 THEN cDash ELSE cPlus>> \o Pad(h, 2) \o <<cColon>> \o Pad(I(x[4]), 2)
      \o (IF I(x[5]) > 0 THEN Pad(I(x[5]), 2) ELSE <<>>)

(* text of one token for the epoch (ts, v) shown by a formatter with offset off *)
TokenText(tok, ts, v, off) ==
  LET f == Fields(ts, v) IN
  CASE tok = tY -> PadSigned(f[1], 4)
    [] tok = tm -> Pad(f[2], 2)
    [] tok = td -> Pad(f[3], 2)
    [] tok = tH -> Pad(f[4], 2)
    [] tok = tM -> Pad(f[5], 2)
    [] tok = tS -> Pad(f[6], 2)
    [] tok = tf -> Pad(f[7], 9)
    [] tok = tj -> Pad(C!DayOfYear(f[1], f[2], f[3]), 3)
    [] tok = tB -> MonthLongC[f[2]]
    [] tok = tb -> First3(MonthLongC[f[2]])
    [] tok = tA -> WeekdayLongC[WeekdayIn(ts, v) + 1]
    [] tok = ta -> First3(WeekdayLongC[WeekdayIn(ts, v) + 1])
    [] tok = tT -> ScaleName(ts)
    [] tok = tz -> OffsetText(off)
    [] OTHER -> <<>>

Printed(it, ts, v) ==
  IF ~it.opt THEN TRUE
  ELSE IF it.tok = tf THEN Fields(ts, v)[7] # 0
  ELSE IF it.tok = tT THEN ts # UTC
  ELSE TRUE
SepText(it) == (IF it.s1 = -1 THEN <<>> ELSE <<it.s1>>) \o (IF it.s2 = -1 THEN <<>> ELSE <<it.s2>>)

RECURSIVE RenderFrom(_, _, _, _, _)
RenderFrom(items, i, ts, v, off) ==
  IF i > Len(items) THEN <<>>
  ELSE (IF Printed(items[i], ts, v)
        THEN (IF i > 1 THEN SepText(items[i - 1]) ELSE <<>>) \o TokenText(items[i].tok, ts, v, off)
        ELSE <<>>) \o RenderFrom(items, i + 1, ts, v, off)
(* the formatter shows epoch + offset, in the epoch's own scale *)
Render(items, ts, v, off) == RenderFrom(items, 1, ts, DAdd(v, off), off)
(* Formatter::new followed by set_timezone: the offset is what %z prints, the epoch shown is not shifted *)
RenderSet(items, ts, v, off) == RenderFrom(items, 1, ts, v, off)
AllJudged(items) == \A i \in 1..Len(items) : Judged(items[i].tok)

(* round trip (parse of the rendered text with the same format) is required for formats without *)
(* optional tokens that contain the full date and time and whose tokens can be told apart: every *)
(* item but the last is followed by a separator that is neither a digit nor a letter            *)
IsAlnum(c) == IsDigit(c) \/ (c >= 65 /\ c <= 90) \/ (c >= 97 /\ c <= 122)
HasTok(items, t) == \E i \in 1..Len(items) : items[i].tok = t
OnceEach(items) == \A i, j \in 1..Len(items) : i # j => items[i].tok # items[j].tok
RoundTrippable(items) ==
  /\ \A i \in 1..Len(items) : ~items[i].opt /\ items[i].tok \in {tY, tm, td, tH, tM, tS, tf, tB, tb, tA, ta, tT, tz}
  /\ OnceEach(items)
  /\ HasTok(items, tY) /\ (HasTok(items, tm) \/ HasTok(items, tB) \/ HasTok(items, tb)) /\ HasTok(items, td)
  /\ HasTok(items, tH) /\ HasTok(items, tM) /\ HasTok(items, tS)
  /\ ~(HasTok(items, tm) /\ (HasTok(items, tB) \/ HasTok(items, tb))) /\ ~(HasTok(items, tB) /\ HasTok(items, tb))
  /\ ~(HasTok(items, tA) /\ HasTok(items, ta))
  /\ \A i \in 1..(Len(items) - 1) :
        LET numeric == items[i].tok \notin {tB, tb, tA, ta, tT} /\ items[i + 1].tok \notin {tB, tb, tA, ta, tT}
            sepOK(c) == ~IsDigit(c) /\ (IsAlnum(c) => numeric)
        IN  \/ (items[i].s1 # -1 /\ sepOK(items[i].s1) /\ (items[i].s2 = -1 \/ sepOK(items[i].s2)))
            \/ (items[i + 1].tok = tz /\ items[i].s1 = -1 /\ items[i].tok \in {tS, tf})     \* the sign of the offset delimits
  /\ (HasTok(items, tz) => \E i \in 1..Len(items) : items[i].tok = tz /\ (i = Len(items) \/ i = Len(items) - 1))
  /\ (HasTok(items, tT) => items[Len(items)].tok = tT)

(* Parsing with an all-numeric format (%Y %m %d %H %M %S %f %j, each at most once, a non-alphanumeric   *)
(* separator after every item but the last): the sentence is a digit run per item followed by the item's *)
(* separators.  Used for the second sentence of C13: a well-formed sentence whose fields are out of range  *)
(* must be an error.                                                                                      *)
NumericTok(t) == t \in {tY, tm, td, tH, tM, tS, tf, tj}
NumFormat(items) ==
  /\ Len(items) >= 1 /\ OnceEach(items)
  /\ \A i \in 1..Len(items) : NumericTok(items[i].tok) /\ ~items[i].opt
  /\ \A i \in 1..(Len(items) - 1) : items[i].s1 # -1 /\ ~IsAlnum(items[i].s1) /\ (items[i].s2 = -1 \/ ~IsAlnum(items[i].s2))
  /\ items[Len(items)].s1 = -1
RECURSIVE MatchNumFrom(_, _, _, _)
(* values read so far in acc; returns <<TRUE, values>> or <<FALSE, <<>>>> *)
MatchNumFrom(items, s, k, i) ==
  LET n == DigitRun(s, i) IN
    IF n < 1 \/ n > 9 THEN <<FALSE, <<>>>>
    ELSE IF k = Len(items)
         THEN IF i + n - 1 = Len(s) THEN <<TRUE, <<NatAt(s, i, n)>>>> ELSE <<FALSE, <<>>>>
         ELSE LET j  == i + n
                  w  == IF items[k].s2 = -1 THEN 1 ELSE 2
                  ok == At(s, j) = items[k].s1 /\ (items[k].s2 = -1 \/ At(s, j + 1) = items[k].s2)
                  rest == MatchNumFrom(items, s, k + 1, j + w)
              IN  IF ok /\ rest[1] THEN <<TRUE, <<NatAt(s, i, n)>> \o rest[2]>> ELSE <<FALSE, <<>>>>
MatchNum(items, s) == MatchNumFrom(items, Trim(s), 1, 1)
FieldOf(items, vals, t, dflt) == IF HasTok(items, t) THEN vals[CHOOSE i \in 1..Len(items) : items[i].tok = t] ELSE dflt
(* some field is out of its range: month 0 / 13, day 0 / beyond the month, hour 25, minute 60, second 61, day of year 367 *)
NumMustReject(items, vals) ==
  LET y == FieldOf(items, vals, tY, 2000)  m == FieldOf(items, vals, tm, 1)  dd == FieldOf(items, vals, td, 1)
      hh == FieldOf(items, vals, tH, 0)  mi == FieldOf(items, vals, tM, 0)  ss == FieldOf(items, vals, tS, 0)
      j == FieldOf(items, vals, tj, 1)
  IN  \/ (HasTok(items, tm) /\ (m = 0 \/ m > 12))
      \/ (HasTok(items, td) /\ (dd = 0 \/ dd > 31))
      \/ (HasTok(items, td) /\ HasTok(items, tm) /\ HasTok(items, tY) /\ m \in 1..12 /\ dd > C!DaysInMonth(y, m)
             /\ ~(m = 2 /\ dd \in {30, 31} /\ C!IsLeap(y)))          \* known finding F11 is judged where it is reported
      \/ hh > 24 \/ mi > 59 \/ ss > 60 \/ j > 366
      \* a sixtieth second exists only at 23:59 of a day that ends in an inserted second (Appendix A.4), whether the
      \* date is given as a day of the month or as a day of the year
      \/ (ss = 60 /\ ~(hh = 23 /\ mi = 59))
      \/ (ss = 60 /\ HasTok(items, tY) /\ y \in 1..9999 /\ HasTok(items, tj) /\ ~HasTok(items, tm) /\ ~HasTok(items, td)
             /\ j \in 1..C!DaysInYear(y) /\ (C!N(y, 1, 1) + j - 1) \notin (LeapDays \cup {Day1971}))
      \/ (ss = 60 /\ HasTok(items, tY) /\ y \in 1..9999 /\ HasTok(items, tm) /\ HasTok(items, td) /\ ~HasTok(items, tj)
             /\ m \in 1..12 /\ dd \in 1..C!DaysInMonth(y, m) /\ C!N(y, m, dd) \notin (LeapDays \cup {Day1971}))
      \/ (HasTok(items, tj) /\ (j = 0 \/ (HasTok(items, tY) /\ j > C!DaysInYear(y))))   \* day 0, day 366 of a common year
(* ... followed by the offset token: the numeric items, then %z as the last item.  The sentence ends in        *)
(* [+-]HH:MM; the part before it is a sentence of the numeric items (the last of which may be followed by a    *)
(* blank).  <<matched, values, offset hours, offset minutes>>                                                  *)
NumFormatZ(items) ==
  /\ Len(items) >= 2 /\ items[Len(items)].tok = tz /\ ~items[Len(items)].opt /\ items[Len(items)].s1 = -1
  /\ LET k == Len(items) - 1 IN
       /\ items[k].s1 \in {-1, cSpace} /\ items[k].s2 = -1
       /\ NumFormat([j \in 1..k |-> IF j = k THEN [items[k] EXCEPT !.s1 = -1] ELSE items[j]])
MatchNumZ(items, s0) ==
  LET s == Trim(s0)  L == Len(s)  k == Len(items) - 1
      w == IF items[k].s1 = -1 THEN 0 ELSE 1
      nm == [j \in 1..k |-> IF j = k THEN [items[k] EXCEPT !.s1 = -1] ELSE items[j]]
  IN  IF L < 7 + w \/ At(s, L - 5) \notin {cPlus, cDash} \/ ~Two(s, L - 4) \/ At(s, L - 2) # cColon \/ ~Two(s, L - 1)
         \/ (w = 1 /\ At(s, L - 6) # cSpace)
      THEN <<FALSE, <<>>, 0, 0>>
      ELSE LET r == MatchNumFrom(nm, SubSeq(s, 1, L - 6 - w), 1, 1) IN
             IF r[1] THEN <<TRUE, r[2], NatAt(s, L - 4, 2), NatAt(s, L - 1, 2)>> ELSE <<FALSE, <<>>, 0, 0>>
=============================================================================
