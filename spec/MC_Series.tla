------------------------------ MODULE MC_Series ------------------------------
(***************************************************************************)
(* Exhaustive, scaled instance of the TimeSeries machine (L1 for C15): all  *)
(* spans 0..12, steps 1..5, both modes, starts either side of the scale's   *)
(* zero.  The yielded sequence is a history variable (hidden from the state *)
(* graph by VIEW would not shrink this tiny model, so it is kept).          *)
(* Safety: when exhausted, exactly start + k*step for k < Count was         *)
(* yielded, in order, nothing past the end, and next() keeps returning      *)
(* None.  Liveness: under weak fairness of SNext every series terminates.   *)
(***************************************************************************)
EXTENDS Integers, Sequences, FiniteSets, TLC

VARIABLES e, eout, ser, sout, hist

Sgn(x) == IF x < 0 THEN -1 ELSE IF x = 0 THEN 0 ELSE 1
AbsI(x) == IF x < 0 THEN -x ELSE x
TQuot(a, b) == Sgn(a) * Sgn(b) * (AbsI(a) \div AbsI(b))
RefC  == [ts \in 0..8 |-> 0]

S == INSTANCE SeriesMachine WITH
       NPC <- 40, CMIN <- -2, CMAX <- 1,
       N <- LAMBDA x : x, I <- LAMBDA x : x,
       Add <- LAMBDA a, b : a + b, Sub <- LAMBDA a, b : a - b, Mul <- LAMBDA a, b : a * b,
       QuotT <- TQuot, DivF <- LAMBDA a, b : a \div b, ModF <- LAMBDA a, b : a % b,
       Lt <- LAMBDA a, b : a < b, Le <- LAMBDA a, b : a <= b,
       U <- <<1, 1, 1, 1, 2, 4, 8, 16, 40>>,
       Ref <- RefC, Leap <- <<>>,
       GregDay <- [ts \in 0..8 |-> 0], GregTod <- [ts \in 0..8 |-> 0],
       DynCenter <- LAMBDA ts, v : v, DynTol <- 0, FarTol <- 0

Init == S!EInit /\ S!SInit /\ hist = <<>>
New  == \E st \in {-7, 0, 3}, span \in 0..12, step \in 1..5, incl \in BOOLEAN :
          /\ sout = <<"init">>
          /\ S!SNew(S!Ep(0, st), S!Ep(0, st + span), step, incl, S!Ep(0, st))
          /\ hist' = <<>> /\ UNCHANGED <<e, eout>>
Nxt  == /\ sout # <<"init">>
        /\ S!SNext
        /\ hist' = (IF sout'[1] = "some" THEN Append(hist, sout'[2].v) ELSE hist)
        /\ UNCHANGED <<e, eout>>
Next == New \/ Nxt
vars == <<e, eout, ser, sout, hist>>
Spec == Init /\ [][Next]_vars /\ WF_vars(Nxt)

Count(s) == IF s.incl THEN (s.span \div s.step) + 1
            ELSE IF s.span = 0 THEN 0 ELSE ((s.span - 1) \div s.step) + 1
Done == sout = <<"none">>
C15_Yields ==
  Done => /\ Len(hist) = Count(ser)
          /\ \A k \in 1..Len(hist) : hist[k] = ser.start.v + (k - 1) * ser.step
          /\ \A k \in 1..Len(hist) : IF ser.incl THEN hist[k] <= ser.start.v + ser.span
                                                  ELSE hist[k] < ser.start.v + ser.span
C15_Increasing == \A k \in 1..(Len(hist) - 1) : hist[k] < hist[k + 1]
C15_StaysDone == [][Done => (sout' = <<"none">> /\ hist' = hist)]_vars
C15_Terminates == (sout = <<"new">>) ~> Done
=============================================================================
