------------------------------ MODULE MC_Series ------------------------------
(***************************************************************************)
(* Exhaustive, scaled instance of the TimeSeries machine (L1 for C15): all  *)
(* spans 0..12, steps 1..5, both modes, starts either side of the scale's   *)
(* zero.  The yielded sequence is a history variable (hidden from the state *)
(* graph by VIEW would not shrink this tiny model, so it is kept).          *)
(* Safety: when exhausted, exactly start + k*step for k < Count was         *)
(* yielded, in order, nothing past the end, and next() keeps returning      *)
(* None.  Liveness: under weak fairness of SNext every series terminates.   *)
(***************************************************************************)
EXTENDS Integers, Sequences, FiniteSets, TLC

VARIABLES e, eout, ser, sout, hist

Sgn(x) == IF x < 0 THEN -1 ELSE IF x = 0 THEN 0 ELSE 1
AbsI(x) == IF x < 0 THEN -x ELSE x
TQuot(a, b) == Sgn(a) * Sgn(b) * (AbsI(a) \div AbsI(b))
RefC  == [ts \in 0..8 |-> 0]

S == INSTANCE SeriesMachine WITH
       NPC <- 40, CMIN <- -2, CMAX <- 1,
       N <- LAMBDA x : x, I <- LAMBDA x : x,
       Add <- LAMBDA a, b : a + b, Sub <- LAMBDA a, b : a - b, Mul <- LAMBDA a, b : a * b,
       QuotT <- TQuot, DivF <- LAMBDA a, b : a \div b, ModF <- LAMBDA a, b : a % b,
       Lt <- LAMBDA a, b : a < b, Le <- LAMBDA a, b : a <= b,
       U <- <<1, 1, 1, 1, 2, 4, 8, 16, 40>>,
       Ref <- RefC, Leap <- <<>>,
       GregDay <- [ts \in 0..8 |-> 0], GregTod <- [ts \in 0..8 |-> 0],
       DynCenter <- LAMBDA ts, v : v, DynTol <- 0, FarTol <- 0

Init == S!EInit /\ S!SInit /\ hist = <<>>
(* spans 0..12 with steps 1..5 (every relation between span and step), and spans up to the largest duration   *)
(* (80 ticks: from the least epoch to the scale's zero and from the zero to the greatest) with steps for which   *)
(* the product k * step leaves the range of durations after a few items                                         *)
NewDom == [st : {-7, 0, 3}, span : 0..12, step : 1..5] \cup [st : {-80, 0}, span : {79, 80}, step : {27, 40, 41, 79, 80}]
New  == \E x \in NewDom, incl \in BOOLEAN : LET st == x.st  span == x.span  step == x.step IN
          /\ sout = <<"init">>
          /\ S!SNew(S!Ep(0, st), S!Ep(0, st + span), step, incl, S!Ep(0, st))
          /\ hist' = <<>> /\ UNCHANGED <<e, eout>>
Nxt  == /\ sout # <<"init">>
        /\ S!SNext
        /\ hist' = (IF sout'[1] = "some" THEN Append(hist, sout'[2].v) ELSE hist)
        /\ UNCHANGED <<e, eout>>
Next == New \/ Nxt
vars == <<e, eout, ser, sout, hist>>
Spec == Init /\ [][Next]_vars /\ WF_vars(Nxt)

Count(s) == IF s.incl THEN (s.span \div s.step) + 1
            ELSE IF s.span = 0 THEN 0 ELSE ((s.span - 1) \div s.step) + 1
Done == sout = <<"none">>
C15_Yields ==
  Done => /\ Len(hist) = Count(ser)
          /\ \A k \in 1..Len(hist) : hist[k] = ser.start.v + (k - 1) * ser.step
          /\ \A k \in 1..Len(hist) : IF ser.incl THEN hist[k] <= ser.start.v + ser.span
                                                  ELSE hist[k] < ser.start.v + ser.span
C15_Increasing == \A k \in 1..(Len(hist) - 1) : hist[k] < hist[k + 1]
C15_StaysDone == [][Done => (sout' = <<"none">> /\ hist' = hist)]_vars
C15_Terminates == (sout = <<"new">>) ~> Done

(* Refinement: Iterator::next as written (the cursor `cur`, the saturating product cur * step for the item, the  *)
(* exact integer product for the test - the repair of finding F36) takes the step the specification takes, in     *)
(* every reachable state; the test as found (the saturating product compared with the span) is a control that     *)
(* TLC refutes: it yields an item where the specification is exhausted.                                           *)
ImplSome(s)    == IF s.incl THEN ~(s.k * s.step > s.span) ELSE ~(s.k * s.step >= s.span)
ImplSomeOld(s) == LET sat == S!DMulI(s.step, s.k) IN IF s.incl THEN ~(sat > s.span) ELSE ~(sat >= s.span)
ImplItem(s)    == S!Ep(s.start.ts, S!DAdd(s.start.v, S!DMulI(s.step, s.k)))
C15_ImplRefines ==
  [][Nxt => IF ImplSome(ser) THEN sout' = <<"some", ImplItem(ser)>> /\ ser'.k = ser.k + 1
                             ELSE sout' = <<"none">> /\ ser' = ser]_vars
ASSUME \E st \in {-80, 0}, step \in {27, 40, 80} :
          LET s == [start |-> S!Ep(0, st), span |-> 80, step |-> step, k |-> 4, incl |-> TRUE] IN
            ImplSomeOld(s) /\ S!Exhausted(s)
=============================================================================
