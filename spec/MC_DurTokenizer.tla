--------------------------- MODULE MC_DurTokenizer ---------------------------
(***************************************************************************)
(* L1 for C13 (and the tokenizer half of C11): the implementation-shaped    *)
(* model of Duration::from_str - the sign test, parse_offset with its fixed *)
(* byte positions, parse_duration with its byte offsets - over character    *)
(* classes, explored exhaustively by TLC for every class string within two  *)
(* edits of the grammar's skeletons and every class string up to length     *)
(* five.  Invariant: no path panics (no slice off a character boundary or   *)
(* out of range, no unwrap of an absent first character).  The parser as    *)
(* found (parse_offset slicing bytes 1..3 of any string of suitable length) *)
(* is a control that TLC refutes.  Whether a field lexes as a number and    *)
(* whether a word is a unit are abstracted to "either": both continuations  *)
(* are explored, which covers every index behaviour of the real parser.     *)
(***************************************************************************)
EXTENDS TokClasses

(* the alphabet that matters here: digit, sign, colon, dot, blank, ASCII letter, the two-byte mu of "μs", *)
(* a three-byte symbol                                                                                    *)
DurClasses == {"d", "-", "+", ":", ".", " ", "x", "e2", "e3"}
IsAscii(s) == \A i \in 1..Len(s) : Bytes(s[i]) = 1

(* parse_offset(s): fixed positions 1..3, 3+c..5+c, 5+2c.. ; `guarded` says whether the is_ascii test is there *)
ParseOffset(s, guarded) ==
  LET n == TotalBytes(s) IN
    IF guarded /\ ~IsAscii(s) THEN <<"err">>
    ELSE IF n \notin {3, 4, 5, 6, 7, 9} THEN <<"err">>
    ELSE IF ~SliceOK(s, 1, 3) THEN <<"PANIC", "s[1..3]">>
    ELSE <<"ok-or-err">>                                   \* the remaining slices use str::get, which cannot panic

(* parse_duration(s): state <<prev_idx, seeking_number, prev_char_was_space>>; returns the set of outcomes over the *)
(* abstracted choices (a field lexes or not, a word is a unit or not)                                             *)
RECURSIVE PD(_, _, _, _, _, _)
PD(s, i, idx, prev, seeking, prevSpace) ==
  IF i > Len(s) THEN {"end"}
  ELSE LET c == s[i]  len == Bytes(c) IN
    IF c = " " THEN
      IF seeking THEN
        IF ~prevSpace THEN
          IF prev = idx THEN {"err"}
          ELSE IF ~SliceOK(s, prev, idx) THEN {"PANIC"}
          ELSE {"err"} \cup PD(s, i + 1, idx + len, prev, FALSE, TRUE)                 \* the number lexes, or not
        ELSE PD(s, i + 1, idx + len, prev, seeking, TRUE)
      ELSE IF ~SliceOK(s, idx, TotalBytes(s)) THEN {"PANIC"}                             \* s[idx..]
           ELSE {"err"} \cup PD(s, i + 1, idx + len, idx, TRUE, TRUE)                   \* a unit, or not
    ELSE PD(s, i + 1, idx + len, IF prevSpace THEN idx ELSE prev, seeking, FALSE)
ParseDuration(s) == PD(s, 1, 0, 0, TRUE, FALSE)

(* Duration::from_str *)
FromStr(s0, guarded) ==
  LET s == Trim(s0) IN
    IF s = <<>> THEN {"err"}
    ELSE LET first == s[1]
             skip  == IF first = "-" THEN 1 ELSE 0
             off   == IF first \in {"-", "+"} THEN ParseOffset(s, guarded) ELSE <<"err">> IN
           (IF off[1] = "PANIC" THEN {"PANIC"} ELSE {})
           \cup (IF ~SliceOK(s, skip, TotalBytes(s)) THEN {"PANIC"} ELSE ParseDuration(SubSeq(s, skip + 1, Len(s))))

D == "d"
Skeletons == {
  <<D, " ", "x">>, <<D, D, ".", D, D, D, " ", "x", "x", "x", "x">>,                    \* 1 d / 10.598 days
  <<D, " ", "x", " ", D, D, D, " ", "x", "x", " ", D, " ", "x", "x">>,                 \* 5 h 256 ms 1 ns
  <<"-", D, " ", "x", " ", D, " ", "e2", "x">>,                                        \* -5 h 3 μs
  <<"-", D, D, ":", D, D, ":", D, D>>, <<"+", D, D, D, D>>, <<"-", D, D, ":", D, D>>,  \* offsets
  <<"+", D, D>>, <<"-", D, D, D, D, D, D>> }

CONSTANT MaxEdits, ShortLen
VARIABLES s, k
Init == \/ (s \in Skeletons /\ k = 0)
        \/ (s = <<>> /\ k = -1)
Next == \/ (k >= 0 /\ k < MaxEdits /\ s' \in EditsOver(s, DurClasses) /\ k' = k + 1)
        \/ (k = -1 /\ Len(s) < ShortLen /\ \E c \in DurClasses : s' = Append(s, c) /\ k' = -1)
Spec == Init /\ [][Next]_<<s, k>>

NoPanic == "PANIC" \notin FromStr(s, TRUE)
ASSUME \A sk \in Skeletons : "end" \in FromStr(sk, TRUE) \/ ParseOffset(Trim(sk), TRUE)[1] = "ok-or-err"
(* control: without the is_ascii guard the fixed positions cut a multi-byte character ("-€", "-60 μs") *)
ASSUME "PANIC" \in FromStr(<<"-", "e3">>, FALSE)
ASSUME "PANIC" \notin FromStr(<<"-", "e3">>, TRUE)
ASSUME "PANIC" \notin FromStr(<<"-", D, D, " ", "e2", "x">>, TRUE)
=============================================================================
