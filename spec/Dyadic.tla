------------------------------- MODULE Dyadic -------------------------------
(***************************************************************************)
(* IEEE-754 binary64 values as the exact dyadic rationals they denote, on   *)
(* the BigInt carrier.  The harness logs a double as its bits:              *)
(*   [k |-> "fin", neg |-> BOOLEAN, m |-> limbs of the odd mantissa, e |-> exponent]   value = +/- m * 2^e *)
(*   [k |-> "inf", neg |-> ..]   [k |-> "nan"]                              *)
(* No floating point is used on the judging side: "rounded to nearest",     *)
(* "truncated toward zero" and "within k ulp" are exact integer statements. *)
(* (Normal range only: results below 2^-1022 or above 2^1023 do not occur   *)
(* for nanosecond counts of durations.)                                     *)
(***************************************************************************)
EXTENDS Integers, Sequences
B == INSTANCE BigInt

P52 == B!Pow2Mag(52)
P53 == B!Pow2Mag(53)

(* least k with x < 2^k (0 for x = 0), x a magnitude *)
BitsOfSmall(n) == IF n = 0 THEN 0 ELSE IF n < 2 THEN 1 ELSE IF n < 4 THEN 2 ELSE IF n < 8 THEN 3 ELSE IF n < 16 THEN 4
                  ELSE IF n < 32 THEN 5 ELSE IF n < 64 THEN 6 ELSE IF n < 128 THEN 7 ELSE IF n < 256 THEN 8
                  ELSE IF n < 512 THEN 9 ELSE IF n < 1024 THEN 10 ELSE IF n < 2048 THEN 11 ELSE IF n < 4096 THEN 12
                  ELSE IF n < 8192 THEN 13 ELSE 14
RECURSIVE FixBits(_, _)
FixBits(x, k) == IF B!CmpMag(B!Pow2Mag(k), x) <= 0 THEN FixBits(x, k + 1)
                 ELSE IF k > 0 /\ B!CmpMag(B!Pow2Mag(k - 1), x) > 0 THEN FixBits(x, k - 1)
                 ELSE k
BitLen(x) == IF x = <<>> THEN 0
             ELSE FixBits(x, (((Len(x) - 1) * 13288) \div 1000) + BitsOfSmall(x[Len(x)]))

(* the rational p / q (magnitudes, q # 0) scaled by 2^(-e): <<numerator, denominator>> *)
Scaled(p, q, e) == IF e >= 0 THEN <<p, B!MulMag(q, B!Pow2Mag(e))>> ELSE <<B!MulMag(p, B!Pow2Mag(-e)), q>>

(* round p / q > 0 to the nearest double, ties to even: <<mantissa magnitude (2^52 <= mant <= 2^53), exponent>> *)
RECURSIVE RoundAt(_, _, _)
RoundAt(p, q, e) ==
  LET nd == Scaled(p, q, e)
      qr == B!DivModMag(nd[1], nd[2])
  IN  IF B!CmpMag(qr[1], P53) >= 0 THEN RoundAt(p, q, e + 1)
      ELSE IF B!CmpMag(qr[1], P52) < 0 THEN RoundAt(p, q, e - 1)
      ELSE LET twice == B!MulSmallMag(qr[2], 2)
               c     == B!CmpMag(twice, nd[2])
               odd   == qr[1][1] % 2 = 1
               up    == c > 0 \/ (c = 0 /\ odd)
           IN  <<IF up THEN B!AddMag(qr[1], <<1>>) ELSE qr[1], e>>
RN53(p, q) == IF p = <<>> THEN <<<<>>, 0>> ELSE RoundAt(p, q, BitLen(p) - BitLen(q) - 53)

(* Division by a power of two as repeated single-limb division (linear passes instead of long      *)
(* division): <<floor(a / 2^k), "one of the k discarded bits was set">>                           *)
RECURSIVE ShrS(_, _, _)
ShrS(a, k, st) ==
  IF k = 0 \/ a = <<>> THEN <<a, st>>
  ELSE IF k >= 13 THEN LET qr == B!DivSmallMag(a, 8192) IN ShrS(qr[1], k - 13, st \/ qr[2] # 0)
  ELSE LET qr == B!DivSmallMag(a, 2^k) IN <<qr[1], st \/ qr[2] # 0>>
Shr(a, k) == ShrS(a, k, FALSE)

(* RN53(p, 2^k), k >= 0, without long division.  The mantissa is not normalised when p has fewer   *)
(* than 53 bits (the value p * 2^-k is then exact); MC_Dyadic checks it equal in value to RN53.    *)
RN53P2(p, k) ==
  IF p = <<>> THEN <<<<>>, 0>>
  ELSE LET L == BitLen(p) IN
         IF L <= 53 THEN <<p, -k>>
         ELSE LET s  == L - 53
                  h  == Shr(p, s - 1)               \* 54 bits and the sticky bit
                  q  == B!DivSmallMag(h[1], 2)      \* <<53-bit quotient, half bit>>
                  up == q[2] = 1 /\ (h[2] \/ q[1][1] % 2 = 1)
              IN  <<IF up THEN B!AddMag(q[1], <<1>>) ELSE q[1], s - k>>

(* truncation toward zero of mant * 2^e to an integer magnitude *)
TruncMag(mant, e) == IF e >= 0 THEN B!MulMag(mant, B!Pow2Mag(e)) ELSE Shr(mant, -e)[1]
(* mant * 2^e is a whole number *)
IsWholeMag(mant, e) == e >= 0 \/ ~Shr(mant, -e)[2]

(* x * factor for a logged finite double x and an integer factor (magnitude): rounded to the    *)
(* nearest double, then truncated toward zero to an integer; result as a signed BigInt          *)
MulTrunc(x, factor) ==
  IF x.m = <<>> THEN B!Zero
  ELSE LET r == IF x.e >= 0 THEN RN53P2(B!MulMag(B!MulMag(x.m, factor), B!Pow2Mag(x.e)), 0)
                ELSE RN53P2(B!MulMag(x.m, factor), -x.e)
       IN  B!Mk(x.neg, TruncMag(r[1], r[2]))

(* a decimal literal <<integer digits, fraction digits>> (sequences of 0..9) as the nearest double *)
DecToDouble(dec) ==
  LET r == RN53(B!MagOfDigits(dec[1] \o dec[2]), B!Pow10Mag(Len(dec[2]))) IN
    [k |-> "fin", neg |-> FALSE, m |-> r[1], e |-> r[2]]

(* |x - num/den| <= k * 2^(E - 52) where 2^E bounds max(|num/den|, floor) from above by less    *)
(* than a factor 4: "within a few units in the last place of the value, or of `floor` for values *)
(* closer to zero than that".  x a logged finite double; num a signed BigInt; den, floorNum      *)
(* magnitudes (floor = floorNum / den).                                                          *)
WithinUlps(x, num, den, floorNum, k) ==
  LET big   == IF B!CmpMag(num.m, floorNum) >= 0 THEN num.m ELSE floorNum
      E     == BitLen(big) - BitLen(den) + 1                  \* 2^E > big / den
      \* compare |x * den - num| with k * den * 2^(E - 52), everything scaled by 2^s to integers
      s     == (IF x.e < 0 THEN -x.e ELSE 0) + (IF E - 52 < 0 THEN 52 - E ELSE 0)
      xd    == B!Mk(x.neg, B!MulMag(B!MulMag(x.m, den), B!Pow2Mag(s + x.e)))
      nn    == B!Mk(num.neg, B!MulMag(num.m, B!Pow2Mag(s)))
      tol   == B!MulMag(B!MulSmallMag(den, k), B!Pow2Mag(s + E - 52))
  IN  B!CmpMag(B!Sub(xd, nn).m, tol) <= 0
=============================================================================
