SPECIFICATION Spec
CONSTANT Ranges <- RangesQuick
INVARIANT Inverse
PROPERTY Successor
CHECK_DEADLOCK FALSE
