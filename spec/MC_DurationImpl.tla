--------------------------- MODULE MC_DurationImpl ---------------------------
(***************************************************************************)
(* Refinement (L1): the implementation-shaped transcription of the Rust     *)
(* algorithms of src/duration/{mod,ops}.rs - one operator per function, one *)
(* branch per Rust branch, checked arithmetic returning None on overflow -  *)
(* computes, on the whole scaled space, exactly what the abstract           *)
(* specification (DurationCore) says.  The scaled machine types are          *)
(*   i16  ~  CMIN..CMAX = -8..7      u64  ~  0..UMAX = 0..71  (5.9 centuries) *)
(* (as in the real types, a negative century plus the at most five extra     *)
(* centuries of a u64 nanosecond field cannot overflow the century type)     *)
(* so every overflow branch of the real code exists and is reachable.       *)
(* The transcriptions follow the tree as repaired (section 13.1); the        *)
(* operators suffixed Old are the algorithms as found, and the last          *)
(* assumptions show that TLC refutes them on the scaled space - the same     *)
(* inputs, scaled up, are the ones reported in known_findings.json.          *)
(***************************************************************************)
EXTENDS Integers, Sequences, TLC

NPC == 12  CMIN == -8  CMAX == 7  UMAX == 71
Sgn(x) == IF x < 0 THEN -1 ELSE IF x = 0 THEN 0 ELSE 1
AbsI(x) == IF x < 0 THEN -x ELSE x
TQuot(a, b) == Sgn(a) * Sgn(b) * (AbsI(a) \div AbsI(b))
D == INSTANCE DurationCore WITH
       NPC <- NPC, CMIN <- CMIN, CMAX <- CMAX, N <- LAMBDA x : x, I <- LAMBDA x : x,
       Add <- LAMBDA a, b : a + b, Sub <- LAMBDA a, b : a - b, Mul <- LAMBDA a, b : a * b,
       QuotT <- TQuot, DivF <- LAMBDA a, b : a \div b, ModF <- LAMBDA a, b : a % b,
       Lt <- LAMBDA a, b : a < b, Le <- LAMBDA a, b : a <= b,
       U <- <<1, 1, 1, 2, 4, 4, NPC, 2 * NPC, NPC>>

NoneI == 1000000          \* "None" of a checked scalar operation
NoneP == <<NoneI, 0>>     \* a panic / None of a pair-valued function
CkAddC(a, b) == IF a + b \in CMIN..CMAX THEN a + b ELSE NoneI       \* i16::checked_add
CkSubC(a, b) == IF a - b \in CMIN..CMAX THEN a - b ELSE NoneI
CkAddN(a, b) == IF a + b <= UMAX THEN a + b ELSE NoneI               \* u64::checked_add
CkSubN(a, b) == IF a - b >= 0 THEN a - b ELSE NoneI
SatAddN(a, b) == IF a + b <= UMAX THEN a + b ELSE UMAX

MAXP == <<CMAX, NPC>>   MINP == <<CMIN, 0>>   ZEROP == <<0, 0>>
Exact(p) == p[1] * NPC + p[2]                                       \* exact_ns closure of the repaired Add/Sub

(* Duration::normalize *)
Normalize(p) ==
  LET c == p[1]  n == p[2]  extra == n \div NPC  rem == n % NPC IN
    IF extra > 0
    THEN IF c = CMAX
         THEN IF SatAddN(n, rem) > NPC THEN MAXP ELSE p
         ELSE IF p # MAXP /\ p # MINP
              THEN LET cc == CkAddC(c, extra) IN
                     IF cc # NoneI THEN <<cc, rem>> ELSE IF c >= 0 THEN MAXP ELSE MINP
              ELSE p
    ELSE p
FromParts(c, n) == Normalize(<<c, n>>)
(* Duration::from_total_nanoseconds *)
FromTotal(x) ==
  IF x = 0 THEN ZEROP
  ELSE LET c == x \div NPC  r == x % NPC IN
         IF c > CMAX THEN MAXP ELSE IF c < CMIN THEN MINP ELSE FromParts(c, r)

(* impl Add for Duration (as repaired) *)
ImplAdd(p0, q0) ==
  LET p == Normalize(p0)  q == Normalize(q0)
      cc == CkAddC(p[1], q[1])
  IN  IF cc = NoneI
      THEN IF p[1] < 0 THEN FromTotal(Exact(p) + Exact(q)) ELSE MAXP
      ELSE LET nn == CkAddN(p[2], q[2]) IN
             IF nn # NoneI THEN Normalize(<<cc, nn>>)
             ELSE LET c2 == CkAddC(cc, q[1]) IN IF c2 = NoneI THEN MAXP ELSE Normalize(<<c2, p[2] + q[2]>>)   \* "rare case"
(* impl Sub for Duration (as repaired) *)
ImplSub(p0, q0) ==
  LET p == Normalize(p0)  q == Normalize(q0)
      cc == CkSubC(p[1], q[1])
  IN  IF cc = NoneI THEN FromTotal(Exact(p) - Exact(q))
      ELSE LET nn == CkSubN(p[2], q[2]) IN
             IF nn # NoneI THEN Normalize(<<cc, nn>>)
             ELSE LET c1 == CkSubC(cc, 1) IN
                    IF c1 = NoneI THEN MINP ELSE Normalize(<<c1, p[2] + (NPC - q[2])>>)
(* impl Neg for Duration (as repaired: -1 - centuries) *)
ImplNeg(p) ==
  IF p = MINP THEN MAXP ELSE IF p = MAXP THEN MINP
  ELSE LET k == CkSubN(NPC, p[2]) IN
         IF k # NoneI THEN FromParts(-1 - p[1], k) ELSE NoneP
(* impl PartialEq for Duration (as repaired: only centuries -1 and 0 take the zero-crossing case) *)
ImplEq(p, q) ==
  IF p[1] = q[1] THEN p[2] = q[2]
  ELSE IF (p[1] = -1 /\ q[1] = 0) \/ (p[1] = 0 /\ q[1] = -1)
       THEN IF p[1] < 0 THEN NPC - p[2] = q[2] ELSE NPC - q[2] = p[2]
       ELSE FALSE
(* Duration::total_nanoseconds as it is (known finding F1) and try_truncated_nanoseconds (as repaired) *)
ImplTotal(p) == IF p[1] = -1 THEN -(NPC - p[2]) ELSE IF p[1] >= 0 THEN p[1] * NPC + p[2] ELSE p[1] * NPC - p[2]
(* derive(PartialOrd, Ord): lexicographic on (centuries, nanoseconds) *)
ImplLt(p, q) == p[1] < q[1] \/ (p[1] = q[1] /\ p[2] < q[2])

-----------------------------------------------------------------------------
Dom   == D!MinV .. D!MaxV
Canon == { D!Parts(v) : v \in Dom }                    \* every value the API can hold
Raw   == (CMIN..CMAX) \X (0..UMAX)                     \* every constructor input

\* from_parts / from_total_nanoseconds refine the abstract constructors
ASSUME \A p \in Raw : LET r == FromParts(p[1], p[2]) IN D!Canonical(r) /\ Exact(r) = D!FromParts(p[1], p[2])
ASSUME \A x \in (3 * D!MinV)..(3 * D!MaxV) : LET r == FromTotal(x) IN D!Canonical(r) /\ Exact(r) = D!FromTotal(x)
\* Add, Sub, Neg refine DAdd, DSub, DNeg on all pairs of representable values, never panic (None)
ASSUME \A p, q \in Canon :
          /\ ImplAdd(p, q) # NoneP /\ D!Canonical(ImplAdd(p, q)) /\ Exact(ImplAdd(p, q)) = D!DAdd(Exact(p), Exact(q))
          /\ ImplSub(p, q) # NoneP /\ D!Canonical(ImplSub(p, q)) /\ Exact(ImplSub(p, q)) = D!DSub(Exact(p), Exact(q))
ASSUME \A p \in Canon : ImplNeg(p) # NoneP /\ D!Canonical(ImplNeg(p)) /\ Exact(ImplNeg(p)) = D!DNeg(Exact(p))
\* == refines DEq (equal counts, or the documented negation quirk); the derived order refines the integer order
ASSUME \A p, q \in Canon : ImplEq(p, q) <=> D!DEq(Exact(p), Exact(q))
ASSUME \A p, q \in Canon : ImplLt(p, q) <=> Exact(p) < Exact(q)
\* known finding F1: total_nanoseconds is the exact count except below -1 century, where it is F1Total
ASSUME \A p \in Canon : ImplTotal(p) = D!F1Total(Exact(p))
ASSUME \A p \in Canon : (p[1] >= -1 \/ p[2] = 0) => ImplTotal(p) = Exact(p)

-----------------------------------------------------------------------------
(* the algorithms as found: TLC refutes each on the scaled space *)
ImplSubOld(p0, q0) ==
  LET p == Normalize(p0)  q == Normalize(q0)  cc == CkSubC(p[1], q[1]) IN
    IF cc = NoneI THEN MINP
    ELSE LET nn == CkSubN(p[2], q[2]) IN
           IF nn # NoneI THEN Normalize(<<cc, nn>>)
           ELSE LET c1 == CkSubC(cc, 1) IN IF c1 = NoneI THEN MINP ELSE Normalize(<<c1, p[2] + (NPC - q[2])>>)
ImplNegOld(p) ==
  IF p = MINP THEN MAXP ELSE IF p = MAXP THEN MINP
  ELSE IF -p[1] \notin CMIN..CMAX THEN NoneP ELSE FromParts(-p[1] - 1, NPC - p[2])     \* -centuries overflows first
ImplEqOld(p, q) ==
  IF p[1] = q[1] THEN p[2] = q[2]
  ELSE IF AbsI(p[1] - q[1]) = 1 /\ (p[1] = 0 \/ q[1] = 0)
       THEN IF p[1] < 0 THEN NPC - p[2] = q[2] ELSE NPC - q[2] = p[2]
       ELSE FALSE
ASSUME \E p, q \in Canon : Exact(ImplSubOld(p, q)) # D!DSub(Exact(p), Exact(q))       \* e.g. 0 - (CMIN, NPC-1)
ASSUME \E p \in Canon : ImplNegOld(p) = NoneP                                          \* (CMIN, n > 0)
ASSUME \E p, q \in Canon : ImplEqOld(p, q) /\ ~D!DEq(Exact(p), Exact(q))              \* (0, x) vs (1, NPC - x)

VARIABLE x
Init == x = 0
Next == UNCHANGED x
=============================================================================
