--------------------------- MODULE DurationLemmas ---------------------------
(***************************************************************************)
(* Machine-checked proofs (TLAPS) of the lemmas on which the abstract       *)
(* Duration type rests, for ALL integers and for ANY positive number of     *)
(* nanoseconds per century and ANY bounds of the century field - not only   *)
(* for the scaled constants TLC enumerates or the real constants Apalache   *)
(* is given.  The definitions are those of DurationCore.tla instantiated on *)
(* the integers (restated, because DurationCore is written against an       *)
(* abstract number carrier).                                                *)
(*                                                                         *)
(* These lemmas are what makes the scaled model a faithful image of the     *)
(* real one: the clamp is a monotone idempotent retraction onto the range,  *)
(* (centuries, nanoseconds) is a bijection between the range and the        *)
(* canonical pairs, the order of values is the lexicographic order of the   *)
(* pairs, floor/ceil satisfy their defining inequalities - whatever NPC is. *)
(***************************************************************************)
EXTENDS Integers, TLAPS

CONSTANTS NPC, CMIN, CMAX
ASSUME ConstAssump == NPC \in Int /\ NPC > 0 /\ CMIN \in Int /\ CMAX \in Int /\ CMIN < 0 /\ CMAX > 0

MinV == NPC * CMIN
MaxV == NPC * (CMAX + 1)
InRange(v) == MinV <= v /\ v <= MaxV
MinI(x, y) == IF x <= y THEN x ELSE y
MaxI(x, y) == IF x <= y THEN y ELSE x
Clamp(x)   == MaxI(MinV, MinI(MaxV, x))
AbsI(x) == IF x < 0 THEN -x ELSE x

Parts(v) == IF v = MaxV THEN <<CMAX, NPC>> ELSE <<v \div NPC, v % NPC>>
Val(c, n) == NPC * c + n
Canonical(p) == /\ p[1] \in CMIN..CMAX
                /\ 0 <= p[2]
                /\ (p[2] < NPC \/ (p = <<CMAX, NPC>>))

LEMMA RangeNonEmpty == MinV < MaxV
  <1>1. NPC * CMIN < 0 BY ConstAssump
  <1>2. NPC * (CMAX + 1) > 0 BY ConstAssump
  <1> QED BY <1>1, <1>2, ConstAssump DEF MinV, MaxV

THEOREM ClampInRange == \A x \in Int : InRange(Clamp(x))
  BY RangeNonEmpty, ConstAssump DEF Clamp, InRange, MinI, MaxI, MinV, MaxV

THEOREM ClampFix == \A x \in Int : InRange(x) => Clamp(x) = x
  BY ConstAssump DEF Clamp, InRange, MinI, MaxI, MinV, MaxV

THEOREM ClampIdem == \A x \in Int : Clamp(Clamp(x)) = Clamp(x)
  BY RangeNonEmpty, ConstAssump DEF Clamp, MinI, MaxI, MinV, MaxV

THEOREM ClampMono == \A x, y \in Int : x <= y => Clamp(x) <= Clamp(y)
  BY RangeNonEmpty, ConstAssump DEF Clamp, MinI, MaxI, MinV, MaxV

(* saturation is on the side of the true result *)
THEOREM ClampSide == \A x \in Int : (x > MaxV => Clamp(x) = MaxV) /\ (x < MinV => Clamp(x) = MinV)
  BY RangeNonEmpty, ConstAssump DEF Clamp, MinI, MaxI, MinV, MaxV

(* negation maps the range onto itself only up to the asymmetry of the bounds *)
THEOREM NegMin == Clamp(-MinV) = MaxI(MinV, MinI(MaxV, -MinV))
  BY DEF Clamp
-----------------------------------------------------------------------------
(* division facts, for a positive divisor (TLA+ division is floored) *)
LEMMA DivMod == \A a \in Int, n \in Int : n > 0 => /\ a = n * (a \div n) + (a % n)
                                                   /\ 0 <= a % n /\ a % n < n
                                                   /\ a \div n \in Int /\ a % n \in Int
  OBVIOUS
LEMMA MulCancelLt == \A a, b, n \in Int : (n > 0 /\ n * a < n * b) => a < b
  OBVIOUS
LEMMA MulCancelLe == \A a, b, n \in Int : (n > 0 /\ n * a <= n * b) => a <= b
  OBVIOUS
LEMMA MulMonoLe == \A a, b, n \in Int : (n > 0 /\ a <= b) => n * a <= n * b
  OBVIOUS

(* the quotient of a value in range is a century in range *)
LEMMA QuotInRange == \A v \in Int : (MinV <= v /\ v < MaxV) => (v \div NPC) \in CMIN..CMAX
  <1> TAKE v \in Int
  <1> HAVE MinV <= v /\ v < MaxV
  <1> DEFINE q == v \div NPC  r == v % NPC
  <1>1. v = NPC * q + r /\ 0 <= r /\ r < NPC /\ q \in Int /\ r \in Int BY DivMod, ConstAssump
  <1>2. NPC * q <= v BY <1>1, ConstAssump
  <1>3. NPC * q < NPC * (CMAX + 1) BY <1>2, ConstAssump DEF MaxV
  <1>4. q < CMAX + 1 BY <1>3, <1>1, MulCancelLt, ConstAssump
  <1>5. v < NPC * q + NPC BY <1>1, ConstAssump
  <1>6. NPC * CMIN < NPC * (q + 1) BY <1>5, <1>1, ConstAssump DEF MinV
  <1>7. CMIN < q + 1 BY <1>6, <1>1, MulCancelLt, ConstAssump
  <1> QED BY <1>4, <1>7, <1>1, ConstAssump

(* (centuries, nanoseconds) is a bijection between the range and the canonical pairs *)
THEOREM ValOfParts == \A v \in Int : InRange(v) => /\ Canonical(Parts(v))
                                                    /\ Val(Parts(v)[1], Parts(v)[2]) = v
  <1> TAKE v \in Int
  <1> HAVE InRange(v)
  <1>1. CASE v = MaxV
    <2>1. Parts(v) = <<CMAX, NPC>> BY <1>1 DEF Parts
    <2>2. Val(CMAX, NPC) = MaxV BY ConstAssump DEF Val, MaxV
    <2> QED BY <2>1, <2>2, <1>1, ConstAssump DEF Canonical
  <1>2. CASE v # MaxV
    <2>1. Parts(v) = <<v \div NPC, v % NPC>> BY <1>2 DEF Parts
    <2>2. MinV <= v /\ v < MaxV BY <1>2, ConstAssump DEF InRange, MinV, MaxV
    <2>3. (v \div NPC) \in CMIN..CMAX BY <2>2, QuotInRange
    <2>4. v = NPC * (v \div NPC) + (v % NPC) /\ 0 <= v % NPC /\ v % NPC < NPC BY DivMod, ConstAssump
    <2> QED BY <2>1, <2>3, <2>4 DEF Canonical, Val
  <1> QED BY <1>1, <1>2

THEOREM PartsOfVal == \A c, n \in Int : Canonical(<<c, n>>) => /\ InRange(Val(c, n))
                                                               /\ Parts(Val(c, n)) = <<c, n>>
  <1> TAKE c, n \in Int
  <1> HAVE Canonical(<<c, n>>)
  <1>0. c \in CMIN..CMAX /\ 0 <= n /\ (n < NPC \/ (c = CMAX /\ n = NPC)) BY DEF Canonical
  <1>1. CASE c = CMAX /\ n = NPC
    <2>1. Val(c, n) = MaxV BY <1>1, ConstAssump DEF Val, MaxV
    <2> QED BY <2>1, <1>1, RangeNonEmpty, ConstAssump DEF Parts, InRange, MinV, MaxV
  <1>2. CASE n < NPC
    <2> DEFINE v == NPC * c + n
    <2>1. v \in Int BY ConstAssump
    <2>2. NPC * CMIN <= NPC * c BY <1>0, MulMonoLe, ConstAssump
    <2>3. NPC * c + NPC <= NPC * (CMAX + 1)
      <3>1. c + 1 <= CMAX + 1 BY <1>0, ConstAssump
      <3>2. NPC * (c + 1) <= NPC * (CMAX + 1) BY <3>1, MulMonoLe, ConstAssump
      <3> QED BY <3>2, ConstAssump
    <2>4. MinV <= v /\ v < MaxV BY <2>2, <2>3, <1>0, <1>2, ConstAssump DEF MinV, MaxV
    <2>5. v \div NPC = c /\ v % NPC = n
      <3>1. v = NPC * (v \div NPC) + (v % NPC) /\ 0 <= v % NPC /\ v % NPC < NPC /\ v \div NPC \in Int /\ v % NPC \in Int
            BY <2>1, DivMod, ConstAssump
      <3> DEFINE q == v \div NPC  r == v % NPC
      <3>2. NPC * (q - c) = n - r BY <3>1, <2>1, ConstAssump
      <3>t. q \in Int /\ r \in Int /\ c \in Int /\ n \in Int /\ NPC \in Int BY <3>1, ConstAssump
      <3>3. 0 - NPC < n - r /\ n - r < NPC BY <3>1, <3>t, <1>0, <1>2
      <3>4. NPC * (0 - 1) < NPC * (q - c) /\ NPC * (q - c) < NPC * 1 BY <3>2, <3>3, <3>t
      <3>5. 0 - 1 < q - c /\ q - c < 1 BY <3>4, <3>t, MulCancelLt, ConstAssump
      <3>6. q = c BY <3>5, <3>t
      <3> QED BY <3>6, <3>2, <3>1, ConstAssump
    <2> QED BY <2>4, <2>5 DEF Val, Parts, InRange
  <1> QED BY <1>0, <1>1, <1>2
-----------------------------------------------------------------------------
(* C03: the order of the values is the lexicographic order of the canonical pairs - the reason why   *)
(* comparing (centuries, nanoseconds) field by field is correct                                      *)
LEMMA Chain == \A x, y, n, m, p \in Int : (x + n < x + p /\ x + p <= y /\ y <= y + m) => x + n < y + m
  OBVIOUS
LexLt(p, q) == p[1] < q[1] \/ (p[1] = q[1] /\ p[2] < q[2])
THEOREM OrderIsLex == \A c, n, e, m \in Int :
                        (Canonical(<<c, n>>) /\ Canonical(<<e, m>>)) => (Val(c, n) < Val(e, m) <=> LexLt(<<c, n>>, <<e, m>>))
  <1> TAKE c, n, e, m \in Int
  <1> HAVE Canonical(<<c, n>>) /\ Canonical(<<e, m>>)
  <1>0. /\ c \in CMIN..CMAX /\ 0 <= n /\ n <= NPC
        /\ e \in CMIN..CMAX /\ 0 <= m /\ m <= NPC
        /\ (n = NPC => c = CMAX) /\ (m = NPC => e = CMAX) BY ConstAssump DEF Canonical
  <1>1. CASE c < e
    <2>1. c + 1 <= e BY <1>1, <1>0
    <2>2. NPC * (c + 1) <= NPC * e BY <2>1, <1>0, MulMonoLe, ConstAssump
    <2>3. n < NPC BY <1>1, <1>0
    <2>a. NPC * (c + 1) = NPC * c + NPC BY <1>0, ConstAssump
    <2>b. NPC * c \in Int /\ NPC * e \in Int BY <1>0, ConstAssump
    <2>c. NPC * c + n < NPC * c + NPC BY <2>3, <2>b, <1>0, ConstAssump
    <2>d. NPC * c + NPC <= NPC * e BY <2>2, <2>a
    <2>e. NPC * e <= NPC * e + m BY <2>b, <1>0
    <2>4. NPC * c + n < NPC * e + m BY <2>c, <2>d, <2>e, <2>b, Chain, ConstAssump
    <2> QED BY <2>4, <1>1 DEF Val, LexLt
  <1>2. CASE c = e
    <2> QED BY <1>2, <1>0, ConstAssump DEF Val, LexLt
  <1>3. CASE e < c
    <2>1. e + 1 <= c BY <1>3, <1>0
    <2>2. NPC * (e + 1) <= NPC * c BY <2>1, <1>0, MulMonoLe, ConstAssump
    <2>3. m < NPC BY <1>3, <1>0
    <2>a. NPC * (e + 1) = NPC * e + NPC BY <1>0, ConstAssump
    <2>b. NPC * c \in Int /\ NPC * e \in Int BY <1>0, ConstAssump
    <2>c. NPC * e + m < NPC * e + NPC BY <2>3, <2>b, <1>0, ConstAssump
    <2>d. NPC * e + NPC <= NPC * c BY <2>2, <2>a
    <2>e. NPC * c <= NPC * c + n BY <2>b, <1>0
    <2>4. NPC * e + m < NPC * c + n BY <2>c, <2>d, <2>e, <2>b, Chain, ConstAssump
    <2> QED BY <2>4, <1>3, <1>0, ConstAssump DEF Val, LexLt
  <1> QED BY <1>0, <1>1, <1>2, <1>3

-----------------------------------------------------------------------------
(* C14: floor is the greatest multiple of |s| not above d; ceil = floor + |s| is the least multiple   *)
(* strictly above d; round is the nearer of the two, ties going up                                    *)
FloorRaw(d, s) == (d \div AbsI(s)) * AbsI(s)
CeilRaw(d, s)  == FloorRaw(d, s) + AbsI(s)
RoundRaw(d, s) == IF d - FloorRaw(d, s) < CeilRaw(d, s) - d THEN FloorRaw(d, s) ELSE CeilRaw(d, s)
IsMultiple(x, s) == \E k \in Int : x = k * AbsI(s)

THEOREM FloorLaw == \A d, s \in Int : s # 0 =>
                      /\ IsMultiple(FloorRaw(d, s), s)
                      /\ FloorRaw(d, s) <= d /\ d < FloorRaw(d, s) + AbsI(s)
                      /\ \A k \in Int : k * AbsI(s) <= d => k * AbsI(s) <= FloorRaw(d, s)
  <1> TAKE d, s \in Int
  <1> HAVE s # 0
  <1> DEFINE a == AbsI(s)  q == d \div a  r == d % a
  <1>1. a \in Int /\ a > 0 BY DEF AbsI
  <1>2. d = a * q + r /\ 0 <= r /\ r < a /\ q \in Int /\ r \in Int BY <1>1, DivMod
  <1>3. FloorRaw(d, s) = q * a BY DEF FloorRaw
  <1>4. q * a = a * q BY <1>1, <1>2
  <1>5. IsMultiple(FloorRaw(d, s), s) BY <1>3, <1>2 DEF IsMultiple
  <1>6. FloorRaw(d, s) <= d /\ d < FloorRaw(d, s) + a BY <1>2, <1>3, <1>4, <1>1
  <1>7. ASSUME NEW k \in Int, k * a <= d PROVE k * a <= FloorRaw(d, s)
    <2>1. a * k < a * (q + 1) BY <1>7, <1>2, <1>1
    <2>2. k < q + 1 BY <2>1, <1>1, <1>2, MulCancelLt
    <2>3. k <= q BY <2>2, <1>2
    <2>4. a * k <= a * q BY <2>3, <1>1, <1>2, MulMonoLe
    <2> QED BY <2>4, <1>3, <1>4, <1>1, <1>2
  <1> QED BY <1>5, <1>6, <1>7

THEOREM CeilLaw == \A d, s \in Int : s # 0 =>
                     /\ IsMultiple(CeilRaw(d, s), s)
                     /\ d < CeilRaw(d, s) /\ CeilRaw(d, s) <= d + AbsI(s)
  <1> TAKE d, s \in Int
  <1> HAVE s # 0
  <1> DEFINE a == AbsI(s)  q == d \div a
  <1>1. a \in Int /\ a > 0 BY DEF AbsI
  <1>2. q \in Int BY <1>1, DivMod
  <1>3. FloorRaw(d, s) = q * a BY DEF FloorRaw
  <1>4. CeilRaw(d, s) = (q + 1) * a BY <1>1, <1>2, <1>3 DEF CeilRaw
  <1>5. IsMultiple(CeilRaw(d, s), s) BY <1>4, <1>2 DEF IsMultiple
  <1>6. FloorRaw(d, s) <= d /\ d < FloorRaw(d, s) + a BY FloorLaw
  <1> QED BY <1>5, <1>6, <1>1, <1>2, <1>3 DEF CeilRaw

THEOREM RoundLaw == \A d, s \in Int : s # 0 =>
                      /\ RoundRaw(d, s) \in {FloorRaw(d, s), CeilRaw(d, s)}
                      /\ 2 * (d - FloorRaw(d, s)) < AbsI(s) => RoundRaw(d, s) = FloorRaw(d, s)
                      /\ 2 * (d - FloorRaw(d, s)) >= AbsI(s) => RoundRaw(d, s) = CeilRaw(d, s)       \* ties go up
  <1> TAKE d, s \in Int
  <1> HAVE s # 0
  <1>1. AbsI(s) \in Int /\ AbsI(s) > 0 BY DEF AbsI
  <1>2. FloorRaw(d, s) \in Int BY <1>1, DivMod DEF FloorRaw
  <1> QED BY <1>1, <1>2 DEF RoundRaw, CeilRaw

-----------------------------------------------------------------------------
(* C15: the number of items of a time series.  For span >= 0 and step > 0 the indices k >= 0 with     *)
(* k * step < span are exactly those below ceil(span / step), and those with k * step <= span are      *)
(* exactly those below floor(span / step) + 1.                                                        *)
CountExcl(span, step) == (span + step - 1) \div step
CountIncl(span, step) == span \div step + 1
THEOREM SeriesCount == \A span, step, k \in Int : (span >= 0 /\ step > 0 /\ k >= 0) =>
                         /\ (k * step < span  <=> k < CountExcl(span, step))
                         /\ (k * step <= span <=> k < CountIncl(span, step))
  <1> TAKE span, step, k \in Int
  <1> HAVE span >= 0 /\ step > 0 /\ k >= 0
  <1>a. k * step = step * k OBVIOUS
  <1>1. (k * step <= span <=> k < CountIncl(span, step))
    <2> DEFINE q == span \div step  r == span % step
    <2>1. span = step * q + r /\ 0 <= r /\ r < step /\ q \in Int /\ r \in Int BY DivMod
    <2>2. ASSUME k * step <= span PROVE k < q + 1
      <3>1. step * k < step * (q + 1) BY <2>2, <2>1, <1>a
      <3> QED BY <3>1, <2>1, MulCancelLt
    <2>3. ASSUME k < q + 1 PROVE k * step <= span
      <3>1. k <= q BY <2>3, <2>1
      <3>2. step * k <= step * q BY <3>1, <2>1, MulMonoLe
      <3> QED BY <3>2, <2>1, <1>a
    <2> QED BY <2>2, <2>3 DEF CountIncl
  <1>2. (k * step < span <=> k < CountExcl(span, step))
    <2> DEFINE w == span + step - 1  q == w \div step  r == w % step
    <2>1. w = step * q + r /\ 0 <= r /\ r < step /\ q \in Int /\ r \in Int /\ w \in Int BY DivMod
    <2>2. ASSUME k * step < span PROVE k < q
      <3>1. step * k + step <= w BY <2>2, <1>a
      <3>2. step * (k + 1) < step * (q + 1) BY <3>1, <2>1
      <3>3. k + 1 < q + 1 BY <3>2, <2>1, MulCancelLt
      <3> QED BY <3>3, <2>1
    <2>3. ASSUME k < q PROVE k * step < span
      <3>1. k + 1 <= q BY <2>3, <2>1
      <3>2. step * (k + 1) <= step * q BY <3>1, <2>1, MulMonoLe
      <3>3. step * k + step <= w BY <3>2, <2>1
      <3> QED BY <3>3, <1>a
    <2> QED BY <2>2, <2>3 DEF CountExcl
  <1> QED BY <1>1, <1>2

-----------------------------------------------------------------------------
LEMMA DiffBound == \A a, b, n \in Int : (0 <= a /\ a < n /\ 0 <= b /\ b < n) => (0 - n < a - b /\ a - b < n)
  OBVIOUS
(* C20: (week, time of week) is the unique pair with week * W + tow = v and 0 <= tow < W *)
THEOREM TimeOfWeek == \A v, W \in Int : (v >= 0 /\ W > 0) =>
                        /\ v = W * (v \div W) + (v % W) /\ 0 <= v % W /\ v % W < W /\ v \div W >= 0
                        /\ \A q, r \in Int : (v = W * q + r /\ 0 <= r /\ r < W) => (q = v \div W /\ r = v % W)
  <1> TAKE v, W \in Int
  <1> HAVE v >= 0 /\ W > 0
  <1> DEFINE q0 == v \div W  r0 == v % W
  <1>1. v = W * q0 + r0 /\ 0 <= r0 /\ r0 < W /\ q0 \in Int /\ r0 \in Int BY DivMod
  <1>2. q0 >= 0
    <2>1. W * q0 > W * (0 - 1) BY <1>1
    <2>2. q0 > 0 - 1 BY <2>1, <1>1, MulCancelLt
    <2> QED BY <2>2, <1>1
  <1>3. ASSUME NEW q \in Int, NEW r \in Int, v = W * q + r, 0 <= r, r < W PROVE q = q0 /\ r = r0
    <2>1. W * (q - q0) = r0 - r BY <1>3, <1>1
    <2>2. 0 - W < r0 - r /\ r0 - r < W BY <1>3, <1>1, DiffBound
    <2>3. W * (0 - 1) < W * (q - q0) /\ W * (q - q0) < W * 1 BY <2>1, <2>2, <1>1
    <2>4. 0 - 1 < q - q0 /\ q - q0 < 1 BY <2>3, <1>1, MulCancelLt
    <2>5. q = q0 BY <2>4, <1>1
    <2> QED BY <2>5, <2>1, <1>1
  <1> QED BY <1>1, <1>2, <1>3

-----------------------------------------------------------------------------
(* C01: within the range the saturating operations are the exact ones, and negation is an involution *)
(* wherever the negated value is representable (for hifitime's symmetric bounds: everywhere)         *)
DAdd(a, b) == Clamp(a + b)
DSub(a, b) == Clamp(a - b)
DNeg(a)    == Clamp(0 - a)
THEOREM AddSubInverse == \A a, b \in Int : (InRange(a) /\ InRange(a + b)) => DSub(DAdd(a, b), b) = a
  BY ClampFix DEF DAdd, DSub
THEOREM NegInvolution == \A a \in Int : (InRange(a) /\ InRange(0 - a)) => DNeg(DNeg(a)) = a
  BY ClampFix DEF DNeg
THEOREM SymmetricBounds == CMIN = 0 - (CMAX + 1) => \A a \in Int : InRange(a) => InRange(0 - a)
  <1> HAVE CMIN = 0 - (CMAX + 1)
  <1> TAKE a \in Int
  <1> HAVE InRange(a)
  <1>1. MinV = 0 - MaxV BY ConstAssump DEF MinV, MaxV
  <1> QED BY <1>1, ConstAssump DEF InRange, MinV, MaxV
=============================================================================
