------------------------------ MODULE EpochCal ------------------------------
(***************************************************************************)
(* The calendar face of an epoch (DESIGN.md, Appendix A.4): Gregorian       *)
(* fields in a time scale, construction from fields with the validity rule, *)
(* weekday, day of year, week / time of week, JD / MJD / UNIX views.        *)
(* Day numbers are native integers (Calendar); nanosecond counts are        *)
(* carrier values.                                                          *)
(***************************************************************************)
EXTENDS TimeScales
C == INSTANCE Calendar

CONSTANTS
  GregDay,   \* [scale -> Int]: day number (from 1900-01-01) of the civil date at which the scale reads zero
  GregTod    \* [scale -> carrier]: time of day (ns) at which the scale reads zero

NsDay == U[7]
Giga  == 1000000000

(* <<year, month, day, hour, minute, second, nanosecond>> of elapsed time v in scale ts *)
Fields(ts, v) ==
  LET tot == Add(v, GregTod[ts])
      day == GregDay[ts] + I(DivF(tot, NsDay))
      tod == ModF(tot, NsDay)
      c   == C!CivilOfN(day)
      hh  == I(DivF(tod, U[6]))      r1 == ModF(tod, U[6])
      mi  == I(DivF(r1, U[5]))       r2 == ModF(r1, U[5])
      ss  == I(DivF(r2, U[4]))       ns == I(ModF(r2, U[4]))
  IN  <<c[1], c[2], c[3], hh, mi, ss, ns>>
DayNumber(ts, v) == GregDay[ts] + I(DivF(Add(v, GregTod[ts]), NsDay))
TimeOfDay(ts, v) == ModF(Add(v, GregTod[ts]), NsDay)

(* elapsed time in scale ts of a civil date-time (second < 60); exact, may be out of range *)
FromFieldsRaw(ts, y, m, d, hh, mi, ss, ns) ==
  Sub(Add(Mul(N(C!N(y, m, d) - GregDay[ts]), NsDay),
          Add(Mul(N(hh * 3600 + mi * 60 + ss), U[4]), N(ns))),
      GregTod[ts])

(* days on which IERS inserted a second: the civil day before each table entry but the first *)
LeapDays == { I(DivF(LeapT(i), NsDay)) - 1 : i \in 2..NLeap }
Day1971  == I(DivF(LeapT(1), NsDay)) - 1      \* precedes an entry, not an inserted second: unconstrained

MustAccept(y, m, d, hh, mi, ss, ns) ==
  /\ m \in 1..12 /\ d >= 1 /\ d <= C!DaysInMonth(y, m)
  /\ hh < 24 /\ mi < 60 /\ ns < Giga
  /\ (ss < 60 \/ (ss = 60 /\ hh = 23 /\ mi = 59 /\ C!N(y, m, d) \in LeapDays))
MustReject(y, m, d, hh, mi, ss, ns) ==
  \/ m = 0 \/ m > 12 \/ d = 0 \/ d > C!DaysInMonth(y, m)
  \/ hh > 24 \/ mi > 59 \/ ss > 60 \/ ns > Giga
  \/ (ss = 60 /\ ~(hh = 23 /\ mi = 59 /\ (C!N(y, m, d) \in LeapDays \/ C!N(y, m, d) = Day1971)))

(* weekday of the civil date of the epoch in scale ts (Monday = 0) *)
WeekdayIn(ts, v) == C!WeekdayOfN(DayNumber(ts, v))

(* GNSS week and nanoseconds of week, for v >= 0 *)
NsWeek == U[8]
ToTOW(v)      == <<DivF(v, NsWeek), ModF(v, NsWeek)>>
FromTOW(w, n) == Clamp(Add(Mul(w, NsWeek), n))
=============================================================================
