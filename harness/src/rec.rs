//! Event recorder: ndjson shards, JSON projection of hifitime values, panic capture.
//!
//! The projection is deliberately dumb: raw `to_parts()` of a Duration, the bits of an
//! f64, the code points of a string.  All arithmetic that judges an event is done by
//! the TLA+ specification (spec/Trace.tla), never here.

use hifitime::{Duration, Epoch, TimeScale, Unit};
use std::collections::HashSet;
use std::fs::File;
use std::io::{BufWriter, Write};
use std::panic::{catch_unwind, AssertUnwindSafe};

pub const NSHARDS: usize = 16;

pub struct Rec {
    shards: Vec<BufWriter<File>>,
    cur: usize,
    episode: u64,
    fresh: bool,
    pub pinned: bool,
    pub events: u64,
    pub per_op: std::collections::BTreeMap<String, u64>,
    distinct: HashSet<u64>,
    pub nontrivial: u64,
    pub samples: Vec<String>,
    pub panics: u64,
    sample_every: u64,
    pub dir: String,
}

fn fnv(s: &str) -> u64 {
    let mut h: u64 = 0xcbf29ce484222325;
    for b in s.as_bytes() {
        h ^= *b as u64;
        h = h.wrapping_mul(0x100000001b3);
    }
    h
}

impl Rec {
    pub fn new(dir: &str) -> Self {
        std::fs::create_dir_all(dir).unwrap();
        let mut shards = Vec::new();
        for i in 0..NSHARDS {
            let f = File::create(format!("{dir}/shard_{i:02}.ndjson")).unwrap();
            shards.push(BufWriter::with_capacity(1 << 20, f));
        }
        Rec {
            shards,
            cur: 0,
            episode: 0,
            fresh: true,
            pinned: false,
            events: 0,
            per_op: Default::default(),
            distinct: HashSet::new(),
            nontrivial: 0,
            samples: Vec::new(),
            panics: 0,
            sample_every: 997,
            dir: dir.to_string(),
        }
    }

    /// Start a new episode: a run of events that must stay together and in order
    /// (it starts with an event that sets every register it uses).
    pub fn episode(&mut self) {
        self.episode += 1;
        if !self.pinned {
            self.cur = (self.episode as usize) % NSHARDS;
        }
        self.fresh = true;
    }

    /// Record one event. `nontrivial` is the per-property rule evaluated by the caller.
    pub fn ev(&mut self, op: &str, body: String, nontrivial: bool) {
        // "ep":true marks the first event of an episode: it sets every register the episode uses,
        // so validation can resume there after a rejected event.
        let line = if self.fresh {
            self.fresh = false;
            format!("{{\"op\":\"{op}\",\"ep\":true,{body}}}")
        } else {
            format!("{{\"op\":\"{op}\",{body}}}")
        };
        if self.distinct.insert(fnv(&line)) && nontrivial {
            self.nontrivial += 1;
        }
        self.events += 1;
        *self.per_op.entry(op.to_string()).or_insert(0) += 1;
        if line.contains("\"panic\"") {
            self.panics += 1;
        }
        if self.samples.len() < 12 && (self.events % self.sample_every == 1) {
            self.samples.push(line.clone());
        }
        let w = &mut self.shards[self.cur];
        w.write_all(line.as_bytes()).unwrap();
        w.write_all(b"\n").unwrap();
    }

    pub fn finish(mut self, prop: &str, extra: &str) {
        for w in self.shards.iter_mut() {
            w.flush().unwrap();
        }
        let ops: Vec<String> = self
            .per_op
            .iter()
            .map(|(k, v)| format!("\"{k}\":{v}"))
            .collect();
        let samples: Vec<String> = self.samples.iter().map(|s| s.clone()).collect();
        let meta = format!(
            "{{\"property\":\"{prop}\",\"events\":{},\"distinct_nontrivial\":{},\"panics_recorded\":{},\"episodes\":{},\"per_op\":{{{}}},\"samples\":[{}]{}}}",
            self.events,
            self.nontrivial,
            self.panics,
            self.episode,
            ops.join(","),
            samples.join(","),
            extra
        );
        std::fs::write(format!("{}/meta.json", self.dir), meta).unwrap();
    }
}

// ---------------------------------------------------------------- JSON projection

pub fn limbs(mut x: u128) -> String {
    let mut v: Vec<String> = Vec::new();
    while x > 0 {
        v.push(((x % 10000) as u32).to_string());
        x /= 10000;
    }
    format!("[{}]", v.join(","))
}

pub fn jbig(x: i128) -> String {
    format!(
        "{{\"neg\":{},\"m\":{}}}",
        x < 0,
        limbs(x.unsigned_abs())
    )
}

pub fn jubig(x: u128) -> String {
    format!("{{\"neg\":false,\"m\":{}}}", limbs(x))
}

pub fn jdur(d: Duration) -> String {
    let (c, n) = d.to_parts();
    format!("{{\"c\":{},\"n\":{}}}", c, limbs(n as u128))
}

pub fn jparts(c: i16, n: u64) -> String {
    format!("{{\"c\":{},\"n\":{}}}", c, limbs(n as u128))
}

pub fn ts_idx(ts: TimeScale) -> u8 {
    u8::from(ts)
}

pub fn jepoch(e: Epoch) -> String {
    let (c, n) = e.duration.to_parts();
    format!(
        "{{\"ts\":{},\"c\":{},\"n\":{}}}",
        ts_idx(e.time_scale),
        c,
        limbs(n as u128)
    )
}

pub fn unit_idx(u: Unit) -> u8 {
    match u {
        Unit::Nanosecond => 1,
        Unit::Microsecond => 2,
        Unit::Millisecond => 3,
        Unit::Second => 4,
        Unit::Minute => 5,
        Unit::Hour => 6,
        Unit::Day => 7,
        Unit::Week => 8,
        Unit::Century => 9,
    }
}

pub const UNITS: [Unit; 9] = [
    Unit::Nanosecond,
    Unit::Microsecond,
    Unit::Millisecond,
    Unit::Second,
    Unit::Minute,
    Unit::Hour,
    Unit::Day,
    Unit::Week,
    Unit::Century,
];

pub const SCALES: [TimeScale; 9] = [
    TimeScale::TAI,
    TimeScale::TT,
    TimeScale::ET,
    TimeScale::TDB,
    TimeScale::UTC,
    TimeScale::GPST,
    TimeScale::GST,
    TimeScale::BDT,
    TimeScale::QZSST,
];

/// An f64 as the exact dyadic rational it denotes: value = (-1)^neg * m * 2^e.
pub fn jf64(x: f64) -> String {
    if x.is_nan() {
        return "{\"k\":\"nan\"}".to_string();
    }
    let bits = x.to_bits();
    let neg = (bits >> 63) == 1;
    if x.is_infinite() {
        return format!("{{\"k\":\"inf\",\"neg\":{neg}}}");
    }
    let exp = ((bits >> 52) & 0x7ff) as i64;
    let frac = bits & ((1u64 << 52) - 1);
    let (mut m, mut e) = if exp == 0 {
        (frac, -1074i64)
    } else {
        (frac | (1u64 << 52), exp - 1075)
    };
    if m == 0 {
        e = 0;
    } else {
        while m & 1 == 0 {
            m >>= 1;
            e += 1;
        }
    }
    format!(
        "{{\"k\":\"fin\",\"neg\":{},\"m\":{},\"e\":{}}}",
        neg,
        limbs(m as u128),
        e
    )
}

pub fn jstr(s: &str) -> String {
    let v: Vec<String> = s.chars().map(|c| (c as u32).to_string()).collect();
    format!("[{}]", v.join(","))
}

pub fn jbool(b: bool) -> &'static str {
    if b {
        "true"
    } else {
        "false"
    }
}

fn esc(s: &str) -> String {
    let mut o = String::new();
    for c in s.chars() {
        match c {
            '"' => o.push_str("\\\""),
            '\\' => o.push_str("\\\\"),
            c if (c as u32) < 0x20 => o.push(' '),
            c if (c as u32) > 0x7e => o.push('?'),
            c => o.push(c),
        }
    }
    o
}

thread_local! {
    /// true while code under test runs inside `catch` (its panics are data, not harness failures)
    pub static IN_CATCH: std::cell::Cell<bool> = const { std::cell::Cell::new(false) };
}

/// Run `f`, turning a panic into data.
pub fn catch<T>(f: impl FnOnce() -> T) -> Result<T, String> {
    let prev = IN_CATCH.with(|c| c.replace(true));
    let r = catch_unwind(AssertUnwindSafe(f));
    IN_CATCH.with(|c| c.set(prev));
    match r {
        Ok(v) => Ok(v),
        Err(p) => {
            let msg = if let Some(s) = p.downcast_ref::<&str>() {
                s.to_string()
            } else if let Some(s) = p.downcast_ref::<String>() {
                s.clone()
            } else {
                "panic".to_string()
            };
            let mut m = esc(&msg);
            m.truncate(80);
            Err(m)
        }
    }
}

pub fn jpanic(msg: &str) -> String {
    format!("{{\"panic\":\"{}\"}}", msg)
}

/// Result of a call returning a Duration (or a panic).
pub fn jres_dur(r: &Result<Duration, String>) -> String {
    match r {
        Ok(d) => jdur(*d),
        Err(m) => jpanic(m),
    }
}

pub fn jres_epoch(r: &Result<Epoch, String>) -> String {
    match r {
        Ok(e) => jepoch(*e),
        Err(m) => jpanic(m),
    }
}

/// Run `f` on a worker thread with a deadline (for calls the properties require to terminate).
pub fn with_deadline<T: Send + 'static>(
    secs: u64,
    f: impl FnOnce() -> T + Send + 'static,
) -> Option<Result<T, String>> {
    let (tx, rx) = std::sync::mpsc::channel();
    std::thread::Builder::new()
        .stack_size(8 << 20)
        .spawn(move || {
            let r = catch(f);
            let _ = tx.send(r);
        })
        .unwrap();
    rx.recv_timeout(std::time::Duration::from_secs(secs)).ok()
}
