//! Floats: C18 (Duration <-> float), C17 (JD / MJD / UNIX views), C20 (day of year), C10 (numeric forms).
use crate::lm::Landmarks;
use crate::p_duration::{DurGen, DM, NPC};
use crate::p_epoch::{ns_dur, EpGen, EM, EXACT, NS_DAY, NS_S};
use crate::p_text::{elapsed_4digit, DEADLINE_S};
use crate::rec::*;
use crate::rng::Rng;
use hifitime::{Duration, Epoch, TimeScale, TimeUnits, Unit};
use std::str::FromStr;

pub fn unit_ns(u: Unit) -> f64 {
    match u {
        Unit::Nanosecond => 1.0,
        Unit::Microsecond => 1e3,
        Unit::Millisecond => 1e6,
        Unit::Second => 1e9,
        Unit::Minute => 6e10,
        Unit::Hour => 3.6e12,
        Unit::Day => 8.64e13,
        Unit::Week => 6.048e14,
        Unit::Century => 3.15576e18,
    }
}

fn next_up(x: f64) -> f64 {
    if x.is_nan() || x == f64::INFINITY {
        return x;
    }
    if x == 0.0 {
        return f64::from_bits(1);
    }
    let b = x.to_bits();
    f64::from_bits(if x > 0.0 { b + 1 } else { b - 1 })
}
fn next_down(x: f64) -> f64 {
    -next_up(-x)
}

impl<'a> DM<'a> {
    /// x * Unit in its spellings: form 0 `x * u`, 1 `u * x`, 2 `x.unit()`, 3 `Duration::from_unit(x)`
    pub fn f64_unit(&mut self, x: f64, u: Unit, form: u8) {
        self.rec.episode();
        let r = with_deadline(DEADLINE_S, move || match form {
            0 => x * u,
            1 => u * x,
            2 => match u {
                Unit::Nanosecond => x.nanoseconds(),
                Unit::Microsecond => x.microseconds(),
                Unit::Millisecond => x.milliseconds(),
                Unit::Second => x.seconds(),
                Unit::Minute => x.minutes(),
                Unit::Hour => x.hours(),
                Unit::Day => x.days(),
                Unit::Week => x.weeks(),
                Unit::Century => x.centuries(),
            },
            _ => match u {
                Unit::Nanosecond => Duration::from_nanoseconds(x),
                Unit::Microsecond => Duration::from_microseconds(x),
                Unit::Millisecond => Duration::from_milliseconds(x),
                Unit::Second => Duration::from_seconds(x),
                Unit::Hour => Duration::from_hours(x),
                Unit::Day => Duration::from_days(x),
                _ => x * u,
            },
        });
        let res = match &r {
            Some(Ok(d)) => jdur(*d),
            Some(Err(m)) => jpanic(m),
            None => "{\"hang\":true}".to_string(),
        };
        self.rec.ev("f64_unit", format!("\"x\":{},\"u\":{},\"form\":{},\"res\":{}", jf64(x), unit_idx(u), form, res), x != 0.0);
        if let Some(Ok(d)) = r {
            self.d = d;
        }
    }
    pub fn mul_f64(&mut self, x: f64, left: bool) {
        let a = self.d;
        let r = with_deadline(DEADLINE_S, move || if left { x * a } else { a * x });
        let res = match &r {
            Some(Ok(d)) => jdur(*d),
            Some(Err(m)) => jpanic(m),
            None => "{\"hang\":true}".to_string(),
        };
        self.rec.ev("mul_f64", format!("\"x\":{},\"res\":{}", jf64(x), res), true);
        if let Some(Ok(d)) = r {
            self.d = d;
        }
    }
    /// Duration::compose_f64: the sum of the seven float fields each times its unit, negated for a negative sign
    pub fn compose_f64(&mut self, sign: i8, f: [f64; 7]) {
        self.rec.episode();
        let r = with_deadline(DEADLINE_S, move || Duration::compose_f64(sign, f[0], f[1], f[2], f[3], f[4], f[5], f[6]));
        let res = match &r {
            Some(Ok(d)) => jdur(*d),
            Some(Err(m)) => jpanic(m),
            None => "{\"hang\":true}".to_string(),
        };
        let fs: Vec<String> = f.iter().map(|x| jf64(*x)).collect();
        self.rec.ev("compose_f64", format!("\"sign\":{},\"f\":[{}],\"res\":{}", sign, fs.join(","), res), true);
        if let Some(Ok(d)) = r {
            self.d = d;
        }
    }
    /// Unit::in_seconds / from_seconds: the factor table as doubles
    pub fn unit_consts(&mut self) {
        self.rec.episode();
        for u in UNITS {
            let r = catch(|| (u.in_seconds(), u.from_seconds()));
            let res = match r {
                Ok((a, b)) => format!("{{\"in_s\":{},\"from_s\":{}}}", jf64(a), jf64(b)),
                Err(m) => jpanic(&m),
            };
            self.rec.ev("unit_consts", format!("\"u\":{},\"res\":{}", unit_idx(u), res), true);
        }
    }
    pub fn to_unit(&mut self, u: Unit, secs_form: bool) {
        let a = self.d;
        let r = catch(|| if secs_form && u == Unit::Second { a.to_seconds() } else { a.to_unit(u) });
        let res = match r {
            Ok(x) => jf64(x),
            Err(m) => jpanic(&m),
        };
        self.rec.ev("to_unit", format!("\"u\":{},\"res\":{}", unit_idx(u), res), true);
    }
}

pub fn f64_landmarks() -> Vec<f64> {
    let mut v: Vec<f64> = vec![
        0.0, -0.0, 1.0, -1.0, 0.5, 0.1, 0.3, 1.5, 2.0, 10.598, 1e-9, 1e-10, 1e-300, 5e-324, f64::MIN_POSITIVE, 0.999_999_999_999_999_9, 1.000_000_000_000_000_2,
        1e9, 1e10, 1e15, 1e18, 1e19, 1e20, 1e22, 1e23, 1e24, 1e30, 1e100, 1e300, f64::MAX, f64::MIN, 123456.789, 86399.999999999, 36525.0, 73050.0,
        2f64.powi(53), 2f64.powi(53) - 1.0, 2f64.powi(53) + 2.0, 2f64.powi(63), 2f64.powi(63) * 1.5, 2f64.powi(64), 2f64.powi(127), 2f64.powi(126), 9.223372036854775e18,
        9_223_372_037.0, 9_007_199.254740992, 32768.0, 32767.999, 65536.0, 1.03e23, 1.034e23, 3.15576e18, 6.31152e18,
    ];
    let n = v.len();
    for i in 0..n {
        let x = v[i];
        v.push(-x);
        v.push(next_up(x));
        v.push(next_down(x));
    }
    // every binade boundary in the range that matters
    for e in -70..=130 {
        let p = 2f64.powi(e);
        v.push(p);
        v.push(next_down(p));
        v.push(-p);
    }
    v
}

pub fn any_f64(rng: &mut Rng) -> f64 {
    match rng.below(8) {
        0 => f64::from_bits(rng.u64()),
        1 => (rng.range_i64(-1_000_000, 1_000_000) as f64) + if rng.chance(1, 2) { 0.0 } else { rng.f64_unit() },
        2 => rng.range_i64(-(1 << 53), 1 << 53) as f64,
        3 => {
            let x = rng.range_i64(-1_000_000_000, 1_000_000_000) as f64;
            if rng.chance(1, 2) {
                next_up(x)
            } else {
                next_down(x)
            }
        }
        4 => rng.f64_unit() * 10f64.powi(rng.below(40) as i32 - 15) * if rng.chance(1, 2) { -1.0 } else { 1.0 },
        5 => (rng.below(100_000) as f64) / 1000.0,
        6 => {
            // decimal with many digits
            let s = format!("{}.{:09}", rng.below(1000), rng.below(1_000_000_000));
            s.parse::<f64>().unwrap()
        }
        _ => rng.f64_unit() * 2f64.powi(rng.below(200) as i32 - 70),
    }
}

pub fn c18(rec: &mut Rec, lm: &Landmarks, rng: &mut Rng, thorough: bool) {
    let g = DurGen::new(lm);
    let mut m = DM::new(rec);
    let lms = f64_landmarks();
    // every landmark double times every unit, rotating spelling
    for (i, &x) in lms.iter().enumerate() {
        for (k, u) in UNITS.iter().enumerate() {
            m.f64_unit(x, *u, ((i + k) % 4) as u8);
        }
    }
    for x in [f64::INFINITY, f64::NEG_INFINITY, f64::NAN] {
        for (k, u) in UNITS.iter().enumerate() {
            m.f64_unit(x, *u, (k % 4) as u8);
        }
    }
    // f64::MAX / factor +/- 1 ulp, +/- 2^63 neighbourhood per unit
    for u in UNITS {
        let f = unit_ns(u);
        for base in [f64::MAX / f, f64::MIN / f, 2f64.powi(63) / f, -(2f64.powi(63)) / f, 2f64.powi(53) / f, 1.0 / f, 0.5 / f, 1.5 / f, 2.0 / f, 1.03e23 / f, -1.0345e23 / f] {
            for x in [next_down(base), base, next_up(base)] {
                m.f64_unit(x, u, 0);
            }
        }
    }
    let n = if thorough { 200_000 } else { 8_000 };
    for i in 0..n {
        let x = any_f64(rng);
        m.f64_unit(x, *rng.pick(&UNITS), (i % 4) as u8);
    }
    // compose_f64: whole and fractional fields, both signs, landmark doubles in one slot
    m.unit_consts();
    let nc = if thorough { 30_000 } else { 1_500 };
    for i in 0..nc {
        let mut f = [0.0f64; 7];
        for k in 0..7 {
            f[k] = match rng.below(6) {
                0 => 0.0,
                1 => rng.below(1000) as f64,
                2 => rng.below(100_000) as f64 / 100.0,
                3 => rng.f64_unit() * 60.0,
                4 => -(rng.below(50) as f64) / 4.0,
                _ => rng.below(3) as f64,
            };
        }
        if i % 9 == 0 {
            f[(i / 9) % 7] = *rng.pick(&lms);
        }
        m.compose_f64(if i % 3 == 0 { -1 } else if i % 3 == 1 { 1 } else { 0 }, f);
    }
    // Duration * f64, any duration, finite x
    let span = 100 * NPC as i128;
    let full = (i16::MAX as i128 + 1) * NPC as i128;
    let xs: Vec<f64> = vec![0.0, 1.0, -1.0, 0.5, 0.1, 0.3, 2.0, 1.5, 10.598, 1e-9, 1e-10, 1e-300, 0.123456789012345678, 3.0, 1e3, 1e-3, 7.25, -0.75, 1e6, 123456.789, 2f64.powi(-20), 0.999_999_999_999_999_9, 0.011, 0.7, 1.0 / 3.0, 0.12345678901234567, -0.98765432109876543, 2.5, 1e-7 / 3.0];
    let nm = if thorough { 160_000 } else { 7_000 };
    for i in 0..nm {
        let v = match rng.below(6) {
            0 => rng.log_i128(68).clamp(-span, span),
            1 => (rng.i128().rem_euclid(2 * span)) - span,
            2 => rng.below(1_000_000) as i128 * *rng.pick(&[1i128, 1000, 1_000_000, NS_S as i128, 60 * NS_S as i128, NS_DAY as i128]),
            3 => (rng.below(200) as i128 - 100) * NPC as i128 + rng.below(5) as i128 - 2,
            4 => rng.i128().rem_euclid(2 * full) - full,
            _ => rng.below(100_000) as i128 * NS_S as i128,
        };
        let (c, nn) = ns_dur(v).to_parts();
        m.load(c, nn);
        let x = match i % 4 {
            0 => *rng.pick(&xs),
            // short decimal expansions: the products are whole numbers of nanoseconds for round durations
            1 => (rng.below(100_000) as f64 - 50_000.0) / *rng.pick(&[10.0, 100.0, 1000.0, 10_000.0, 1.0e6]),
            // full-precision factors
            2 => (rng.below(1 << 53) as f64 / (1u64 << 53) as f64) * *rng.pick(&[1.0, -1.0, 10.0, 0.001]),
            _ => {
                let y = any_f64(rng);
                if y.is_finite() {
                    y.clamp(-1e12, 1e12)
                } else {
                    1.0
                }
            }
        };
        m.mul_f64(x, i % 2 == 0);
    }
    // to_seconds / to_unit on landmarks and random durations (whole range)
    for &(c, n) in &g.raw {
        m.load(c, n);
        for u in UNITS {
            m.to_unit(u, c % 2 == 0);
        }
    }
    let nt = if thorough { 150_000 } else { 6_000 };
    for i in 0..nt {
        let (c, n) = g.any_raw(rng);
        m.load(c, n);
        m.to_unit(*rng.pick(&UNITS), i % 2 == 0);
    }
    // sorted sweeps: to_unit is non-decreasing in the duration
    for (k, centre) in [0i128, NPC as i128, -(NPC as i128), NS_S as i128 * 86_400 * 365 * 20, span, -span, 1_000_000_007, (i16::MAX as i128) * NPC as i128].iter().enumerate() {
        for u in [Unit::Second, Unit::Day, Unit::Nanosecond, Unit::Century, Unit::Hour] {
            m.rec.episode();
            let mut x = centre - 50;
            let mut first = true;
            for _ in 0..(if thorough { 400 } else { 60 }) {
                let d = ns_dur(x);
                let r = catch(|| d.to_unit(u));
                let res = match r {
                    Ok(f) => jf64(f),
                    Err(p) => jpanic(&p),
                };
                m.rec.ev("sweep_unit", format!("\"first\":{},\"d\":{},\"u\":{},\"res\":{}", jbool(first), jdur(d), unit_idx(u), res), true);
                first = false;
                x += match (rng.below(4), k % 2) {
                    (0, _) => 1,
                    (1, _) => 2,
                    (2, 0) => 100,
                    _ => 1_000_003,
                };
            }
        }
    }
}

// ------------------------------------------------------------------ C17

pub const NVIEWS: usize = 38;
pub const NFROM: usize = 24;

impl<'a> EM<'a> {
    /// Epoch::from_unix_duration: exact
    pub fn from_unix_dur(&mut self, d: Duration) {
        self.rec.episode();
        let r = catch(|| Epoch::from_unix_duration(d));
        let ok = r.clone().ok();
        self.rec.ev("from_unix_dur", format!("\"d\":{},\"res\":{}", jdur(d), jres_epoch(&r)), true);
        if let Some(e) = ok {
            self.e = e;
        }
    }
    pub fn view_dur(&mut self, view: &str, to: TimeScale) {
        let a = self.e;
        let r = catch(|| match (view, to) {
            ("jde", TimeScale::TAI) => a.to_jde_tai_duration(),
            ("jde", TimeScale::UTC) => a.to_jde_utc_duration(),
            ("jde", TimeScale::TT) => a.to_jde_tt_duration(),
            ("mjd", TimeScale::TT) => a.to_mjd_tt_duration(),
            ("j2k", TimeScale::TT) => a.to_tt_since_j2k(),
            _ => a.to_tai_duration(),
        });
        self.rec.ev("view_dur", format!("\"view\":\"{}\",\"to\":{},\"res\":{}", view, ts_idx(to), jres_dur(&r)), true);
    }
    /// float-valued accessors; `which` selects the accessor, returns (view, scale, unit)
    pub fn view_f64(&mut self, which: usize) {
        let a = self.e;
        let (view, to, u, r): (&str, TimeScale, Unit, Result<f64, String>) = match which % NVIEWS {
            0 => ("mjd", TimeScale::TAI, Unit::Day, catch(|| a.to_mjd_tai_days())),
            1 => ("mjd", TimeScale::TAI, Unit::Second, catch(|| a.to_mjd_tai_seconds())),
            2 => ("mjd", TimeScale::TAI, Unit::Hour, catch(|| a.to_mjd_tai(Unit::Hour))),
            3 => ("mjd", TimeScale::UTC, Unit::Day, catch(|| a.to_mjd_utc_days())),
            4 => ("mjd", TimeScale::UTC, Unit::Second, catch(|| a.to_mjd_utc_seconds())),
            5 => ("mjd", TimeScale::UTC, Unit::Minute, catch(|| a.to_mjd_utc(Unit::Minute))),
            6 => ("jde", TimeScale::TAI, Unit::Day, catch(|| a.to_jde_tai_days())),
            7 => ("jde", TimeScale::TAI, Unit::Second, catch(|| a.to_jde_tai_seconds())),
            8 => ("jde", TimeScale::TAI, Unit::Century, catch(|| a.to_jde_tai(Unit::Century))),
            9 => ("jde", TimeScale::UTC, Unit::Day, catch(|| a.to_jde_utc_days())),
            10 => ("jde", TimeScale::UTC, Unit::Second, catch(|| a.to_jde_utc_seconds())),
            11 => ("jde", TimeScale::TT, Unit::Day, catch(|| a.to_jde_tt_days())),
            12 => ("mjd", TimeScale::TT, Unit::Day, catch(|| a.to_mjd_tt_days())),
            13 => ("j2k", TimeScale::TT, Unit::Century, catch(|| a.to_tt_centuries_j2k())),
            14 => ("unix", TimeScale::UTC, Unit::Second, catch(|| a.to_unix_seconds())),
            15 => ("unix", TimeScale::UTC, Unit::Millisecond, catch(|| a.to_unix_milliseconds())),
            16 => ("unix", TimeScale::UTC, Unit::Day, catch(|| a.to_unix_days())),
            17 => ("unix", TimeScale::UTC, Unit::Hour, catch(|| a.to_unix(Unit::Hour))),
            18 => ("plain", TimeScale::TAI, Unit::Second, catch(|| a.to_tai_seconds())),
            19 => ("plain", TimeScale::TAI, Unit::Day, catch(|| a.to_tai_days())),
            20 => ("plain", TimeScale::UTC, Unit::Second, catch(|| a.to_utc_seconds())),
            21 => ("plain", TimeScale::UTC, Unit::Day, catch(|| a.to_utc_days())),
            22 => ("plain", TimeScale::TT, Unit::Second, catch(|| a.to_tt_seconds())),
            23 => ("plain", TimeScale::TT, Unit::Day, catch(|| a.to_tt_days())),
            24 => ("plain", TimeScale::GPST, Unit::Second, catch(|| a.to_gpst_seconds())),
            25 => ("plain", TimeScale::GPST, Unit::Day, catch(|| a.to_gpst_days())),
            26 => ("plain", TimeScale::QZSST, Unit::Second, catch(|| a.to_qzsst_seconds())),
            27 => ("plain", TimeScale::QZSST, Unit::Day, catch(|| a.to_qzsst_days())),
            28 => ("plain", TimeScale::GST, Unit::Second, catch(|| a.to_gst_seconds())),
            29 => ("plain", TimeScale::GST, Unit::Day, catch(|| a.to_gst_days())),
            30 => ("plain", TimeScale::BDT, Unit::Second, catch(|| a.to_bdt_seconds())),
            31 => ("plain", TimeScale::BDT, Unit::Day, catch(|| a.to_bdt_days())),
            32 => ("plain", TimeScale::TAI, Unit::Hour, catch(|| a.to_tai(Unit::Hour))),
            33 => ("plain", TimeScale::TAI, Unit::Century, catch(|| a.to_tai(Unit::Century))),
            34 => ("plain", TimeScale::UTC, Unit::Minute, catch(|| a.to_utc(Unit::Minute))),
            35 => ("plain", TimeScale::UTC, Unit::Week, catch(|| a.to_utc(Unit::Week))),
            36 => ("unix", TimeScale::UTC, Unit::Microsecond, catch(|| a.to_unix(Unit::Microsecond))),
            _ => ("mjd", TimeScale::UTC, Unit::Week, catch(|| a.to_mjd_utc(Unit::Week))),
        };
        let res = match r {
            Ok(x) => jf64(x),
            Err(m) => jpanic(&m),
        };
        self.rec.ev("view_f64", format!("\"view\":\"{}\",\"to\":{},\"u\":{},\"res\":{}", view, ts_idx(to), unit_idx(u), res), true);
    }
    /// JD / MJD constructors in the GNSS scales: the (Modified) Julian Date of that scale's own calendar
    pub fn from_view_gnss(&mut self, which: usize, x: f64) {
        self.rec.episode();
        let (ts, r): (TimeScale, Result<Epoch, String>) = match which % 8 {
            0 => (TimeScale::GPST, catch(|| Epoch::from_mjd_gpst(x))),
            1 => (TimeScale::QZSST, catch(|| Epoch::from_mjd_qzsst(x))),
            2 => (TimeScale::GST, catch(|| Epoch::from_mjd_gst(x))),
            3 => (TimeScale::BDT, catch(|| Epoch::from_mjd_bdt(x))),
            4 => (TimeScale::GPST, catch(|| Epoch::from_jde_gpst(x))),
            5 => (TimeScale::QZSST, catch(|| Epoch::from_jde_qzsst(x))),
            6 => (TimeScale::GST, catch(|| Epoch::from_jde_gst(x))),
            _ => (TimeScale::BDT, catch(|| Epoch::from_jde_bdt(x))),
        };
        let ok = r.clone().ok();
        let view = if which % 8 < 4 { "mjd" } else { "jde" };
        self.rec.ev(
            "from_view",
            format!("\"view\":\"{}\",\"ts\":{},\"u\":{},\"x\":{},\"res\":{}", view, ts_idx(ts), unit_idx(Unit::Day), jf64(x), jres_epoch(&r)),
            true,
        );
        if let Some(e) = ok {
            self.e = e;
        }
    }
    pub fn from_view(&mut self, which: usize, x: f64) {
        self.rec.episode();
        let (view, ts, u, r): (&str, TimeScale, Unit, Result<Epoch, String>) = match which % NFROM {
            0 => ("mjd", TimeScale::TAI, Unit::Day, catch(|| Epoch::from_mjd_tai(x))),
            1 => ("mjd", TimeScale::UTC, Unit::Day, catch(|| Epoch::from_mjd_utc(x))),
            2 => ("jde", TimeScale::TAI, Unit::Day, catch(|| Epoch::from_jde_tai(x))),
            3 => ("jde", TimeScale::UTC, Unit::Day, catch(|| Epoch::from_jde_utc(x))),
            4 => ("unix", TimeScale::UTC, Unit::Second, catch(|| Epoch::from_unix_seconds(x))),
            5 => ("unix", TimeScale::UTC, Unit::Millisecond, catch(|| Epoch::from_unix_milliseconds(x))),
            6 => ("plain", TimeScale::TAI, Unit::Second, catch(|| Epoch::from_tai_seconds(x))),
            7 => ("plain", TimeScale::TAI, Unit::Day, catch(|| Epoch::from_tai_days(x))),
            8 => ("plain", TimeScale::UTC, Unit::Second, catch(|| Epoch::from_utc_seconds(x))),
            9 => ("plain", TimeScale::UTC, Unit::Day, catch(|| Epoch::from_utc_days(x))),
            10 => ("plain", TimeScale::TT, Unit::Second, catch(|| Epoch::from_tt_seconds(x))),
            11 => ("plain", TimeScale::GPST, Unit::Second, catch(|| Epoch::from_gpst_seconds(x))),
            12 => ("plain", TimeScale::GPST, Unit::Day, catch(|| Epoch::from_gpst_days(x))),
            13 => ("plain", TimeScale::QZSST, Unit::Second, catch(|| Epoch::from_qzsst_seconds(x))),
            14 => ("plain", TimeScale::QZSST, Unit::Day, catch(|| Epoch::from_qzsst_days(x))),
            15 => ("plain", TimeScale::GST, Unit::Second, catch(|| Epoch::from_gst_seconds(x))),
            16 => ("plain", TimeScale::GST, Unit::Day, catch(|| Epoch::from_gst_days(x))),
            17 => ("plain", TimeScale::BDT, Unit::Second, catch(|| Epoch::from_bdt_seconds(x))),
            18 => ("plain", TimeScale::BDT, Unit::Day, catch(|| Epoch::from_bdt_days(x))),
            19 => ("mjd", TimeScale::TT, Unit::Day, catch(|| Epoch::from_mjd_in_time_scale(x, TimeScale::TT))),
            20 => ("jde", TimeScale::TT, Unit::Day, catch(|| Epoch::from_jde_in_time_scale(x, TimeScale::TT))),
            21 => ("mjd", TimeScale::TAI, Unit::Day, catch(|| Epoch::from_mjd_in_time_scale(x, TimeScale::TAI))),
            22 => ("jde", TimeScale::UTC, Unit::Day, catch(|| Epoch::from_jde_in_time_scale(x, TimeScale::UTC))),
            _ => ("plain", TimeScale::TT, Unit::Second, catch(|| Epoch::from_tt_seconds(x))),
        };
        let ok = r.clone().ok();
        self.rec.ev(
            "from_view",
            format!("\"view\":\"{}\",\"ts\":{},\"u\":{},\"x\":{},\"res\":{}", view, ts_idx(ts), unit_idx(u), jf64(x), jres_epoch(&r)),
            true,
        );
        if let Some(e) = ok {
            self.e = e;
        }
    }
}

pub fn c17(rec: &mut Rec, lm: &Landmarks, rng: &mut Rng, thorough: bool) {
    let g = EpGen::new(lm, false);
    let mut m = EM::new(rec);
    let span = 100 * NPC as i128;
    // landmark epochs: the constants of the statement, leap windows, +/- 10 000 years
    let mut vals: Vec<(TimeScale, i128)> = Vec::new();
    for ts in EXACT {
        for x in [0i128, 1, -1, 43_200 * NS_S as i128, 36_524 * NS_DAY as i128 + 43_200 * NS_S as i128, 25_567 * NS_DAY as i128, -(15_020 * NS_DAY as i128), span, -span, NPC as i128, -(NPC as i128)] {
            vals.push((ts, x));
        }
    }
    for (k, &x) in g.leaps.iter().enumerate() {
        if k % 11 == 0 {
            vals.push((if k % 2 == 0 { TimeScale::UTC } else { TimeScale::TAI }, x));
        }
    }
    for (ts, x) in vals {
        m.eload_dur(ts, ns_dur(x));
        for v in [("jde", TimeScale::TAI), ("jde", TimeScale::UTC), ("jde", TimeScale::TT), ("mjd", TimeScale::TT), ("j2k", TimeScale::TT)] {
            m.view_dur(v.0, v.1);
        }
        for w in 0..NVIEWS {
            m.view_f64(w);
        }
    }
    let n = if thorough { 120_000 } else { 5_000 };
    for i in 0..n {
        let ts = *rng.pick(&EXACT);
        let v = if rng.chance(1, 3) { (rng.i128().rem_euclid(2 * span)) - span } else { elapsed_4digit(rng, ts) };
        m.eload_dur(ts, ns_dur(v));
        m.view_f64(i);
        m.view_f64(rng.below(NVIEWS as u64) as usize);
        if i % 4 == 0 {
            let v = *rng.pick(&[("jde", TimeScale::TAI), ("jde", TimeScale::UTC), ("jde", TimeScale::TT), ("mjd", TimeScale::TT), ("j2k", TimeScale::TT)]);
            m.view_dur(v.0, v.1);
        }
    }
    // constructors from JD / MJD / UNIX / plain float values, then the same view read back
    let nc = if thorough { 80_000 } else { 4_000 };
    for i in 0..nc {
        let which = i % NFROM;
        // a value of that view within +/- 10 000 years of 1900
        let days = rng.range_i64(-3_652_000, 3_652_000) as f64 + if rng.chance(1, 3) { 0.0 } else { rng.f64_unit() };
        let x = match which {
            0 | 1 | 19 | 21 => days + 15_020.0,
            2 | 3 | 20 | 22 => days + 2_415_020.5,
            4 => (days - 25_567.0) * 86_400.0,
            5 => (days - 25_567.0) * 86_400_000.0,
            6 | 8 | 10 | 11 | 13 | 15 | 17 | 23 => days * 86_400.0,
            _ => days,
        };
        let x = match i % 7 {
            0 => x.round(),
            1 => (x * 1000.0).round() / 1000.0,
            _ => x,
        };
        m.from_view(which, x);
        // read the same view back
        let back = match which {
            0 => 0,
            1 => 3,
            2 => 6,
            3 => 9,
            4 => 14,
            5 => 15,
            6 => 18,
            7 => 19,
            8 => 20,
            9 => 21,
            10 | 23 => 22,
            11 => 24,
            12 => 25,
            13 => 26,
            14 => 27,
            15 => 28,
            16 => 29,
            17 => 30,
            18 => 31,
            19 => 12,
            20 => 11,
            21 => 0,
            _ => 9,
        };
        m.view_f64(back);
    }
    for x in [0.0, 15_020.0, 51_544.5, 2_451_545.0, 2_415_020.5, -0.0, 1.0, 2_440_587.5, 40_587.0] {
        for w in 0..NFROM {
            m.from_view(w, x);
        }
        for w in 0..8 {
            m.from_view_gnss(w, x);
            m.from_view_gnss(w, x * 1.000_000_1 + rng.f64_unit());
        }
    }
    // from_unix_duration is exact: landmark and random durations, then the UNIX views read back
    let nu = if thorough { 40_000 } else { 2_000 };
    for i in 0..nu {
        let v = match i % 4 {
            0 => (rng.i128().rem_euclid(2 * span)) - span,
            1 => rng.log_i128(66),
            2 => *rng.pick(&g.leaps) - 25_567 * NS_DAY as i128 + rng.range_i64(-2, 2) as i128,
            _ => rng.range_i64(0, 2_000_000_000) as i128 * NS_S as i128 + rng.below(3) as i128,
        };
        m.from_unix_dur(ns_dur(v));
        m.view_f64(14 + (i % 4));
    }
}

// ------------------------------------------------------------------ C20 (day of year) and C10 (numeric forms)

pub fn c20_doy(m: &mut EM, rng: &mut Rng, thorough: bool) {
    let doys: [f64; 12] = [1.0, 1.5, 2.0, 59.0, 60.0, 61.0, 365.0, 365.999999, 366.0, 366.999, 100.25, 200.000000001];
    let ys: Vec<i32> = if thorough { (1..=9999).step_by(7).collect() } else { vec![1, 4, 100, 400, 1582, 1899, 1900, 1972, 2000, 2016, 2017, 2023, 2100, 9999] };
    for &y in &ys {
        let leap = (y % 4 == 0 && y % 100 != 0) || y % 400 == 0;
        for (k, &d) in doys.iter().enumerate() {
            if d >= if leap { 367.0 } else { 366.0 } {
                continue;
            }
            let ts = SCALES[(y as usize + k) % 9];
            m.rec.episode();
            let r = catch(|| Epoch::from_day_of_year(y, d, ts));
            m.rec.ev("from_doy", format!("\"ts\":{},\"y\":{},\"days\":{},\"res\":{}", ts_idx(ts), y, jf64(d), jres_epoch(&r)), true);
            if let Ok(e) = r {
                m.e = e;
                m.doy();
            }
        }
    }
    let n = if thorough { 80_000 } else { 4_000 };
    for i in 0..n {
        let ts = SCALES[i % 9];
        m.eload_dur(ts, ns_dur(elapsed_4digit(rng, ts)));
        m.doy();
        if i % 3 == 0 {
            let y = rng.range_i64(1, 9999) as i32;
            let d = 1.0 + rng.f64_unit() * 364.9;
            m.rec.episode();
            let r = catch(|| Epoch::from_day_of_year(y, d, ts));
            m.rec.ev("from_doy", format!("\"ts\":{},\"y\":{},\"days\":{},\"res\":{}", ts_idx(ts), y, jf64(d), jres_epoch(&r)), true);
            if let Ok(e) = r {
                m.e = e;
                m.doy();
            }
        }
    }
}

impl<'a> EM<'a> {
    pub fn doy(&mut self) {
        let a = self.e;
        let r = catch(|| (a.year(), a.day_of_year(), a.year_days_of_year(), a.duration_in_year()));
        let res = match r {
            Ok((y, d, (y2, d2), iy)) => format!("{{\"year\":{},\"doy\":{},\"year2\":{},\"doy2\":{},\"in_year\":{}}}", y, jf64(d), y2, jf64(d2), jdur(iy)),
            Err(p) => jpanic(&p),
        };
        self.rec.ev("doy", format!("\"res\":{}", res), true);
    }
}

/// "JD|MJD|SEC <float> <scale>": the number is printed with Rust's shortest round-trip form, so the
/// double the parser must recover is known exactly
pub fn c10_numeric(m: &mut EM, rng: &mut Rng, thorough: bool) {
    let n = if thorough { 40_000 } else { 2_000 };
    for i in 0..n {
        let kind = i % 3;
        let ts = SCALES[(i / 3) % 9];
        let dynamic = ts == TimeScale::ET || ts == TimeScale::TDB;
        let days = rng.range_i64(-693_000, 2_958_000) as f64 + if rng.chance(1, 3) { 0.0 } else { rng.f64_unit() };
        let (word, view, u, x) = match kind {
            0 => ("JD", "jde", Unit::Day, days + 2_415_020.5),
            1 => ("MJD", "mjd", Unit::Day, days + 15_020.0),
            _ => ("SEC", "plain", Unit::Second, days * 86_400.0),
        };
        let x = if i % 5 == 0 { (x * 100.0).round() / 100.0 } else { x };
        let name = format!("{ts}");
        let s = format!("{word} {x} {name}");
        // which sentences must parse and have a pinned value: SEC in every non-dynamical scale; JD and MJD in
        // TAI, UTC, TT (the scales that count from 1900-01-01); the rest is only required not to panic
        // (SEC in ET/TDB is the plain count past J2000 in that scale - no approximation involved - so it is pinned too;
        // JD/MJD in ET/TDB are documented as approximate and only required not to panic)
        // (JD and MJD in the GNSS scales denote the date of that scale's own calendar: pinned as well - finding F35)
        let must = kind == 2 || !dynamic;
        let owned = s.clone();
        let r = with_deadline(DEADLINE_S, move || Epoch::from_str(&owned).map_err(|_| ()));
        let res = match &r {
            Some(Ok(Ok(e))) => jepoch(*e),
            Some(Ok(Err(_))) => "{\"err\":1}".to_string(),
            Some(Err(p)) => jpanic(p),
            None => "{\"hang\":true}".to_string(),
        };
        m.rec.episode();
        m.rec.ev(
            "parse_numeric",
            format!("\"s\":{},\"view\":\"{}\",\"ts\":{},\"u\":{},\"x\":{},\"must\":{},\"res\":{}", jstr(&s), view, ts_idx(ts), unit_idx(u), jf64(x), jbool(must), res),
            true,
        );
        if let Some(Ok(Ok(e))) = r {
            m.e = e;
        }
    }
}

// ------------------------------------------------------------------ C07

pub const DYN: [TimeScale; 2] = [TimeScale::ET, TimeScale::TDB];
pub const UNIF: [TimeScale; 6] = [TimeScale::TAI, TimeScale::TT, TimeScale::GPST, TimeScale::GST, TimeScale::BDT, TimeScale::QZSST];

impl<'a> EM<'a> {
    /// the ET / TDB accessors: the count since J2000 as a duration, the JDE duration, and the float views of both
    pub fn dyn_view(&mut self, dy: TimeScale) {
        let a = self.e;
        let et = dy == TimeScale::ET;
        let dur = catch(|| if et { a.to_et_duration() } else { a.to_tdb_duration() });
        let jde = catch(|| if et { a.to_jde_et_duration() } else { a.to_jde_tdb_duration() });
        let mut views: Vec<String> = Vec::new();
        let mut push = |b: u8, u: Unit, r: Result<f64, String>| {
            let v = match r {
                Ok(x) => jf64(x),
                Err(p) => jpanic(&p),
            };
            views.push(format!("{{\"b\":{},\"u\":{},\"v\":{}}}", b, unit_idx(u), v));
        };
        if et {
            push(0, Unit::Second, catch(|| a.to_et_seconds()));
            push(0, Unit::Day, catch(|| a.to_et_days_since_j2000()));
            push(0, Unit::Century, catch(|| a.to_et_centuries_since_j2000()));
            push(1, Unit::Day, catch(|| a.to_jde_et_days()));
            push(1, Unit::Hour, catch(|| a.to_jde_et(Unit::Hour)));
        } else {
            push(0, Unit::Second, catch(|| a.to_tdb_seconds()));
            push(0, Unit::Day, catch(|| a.to_tdb_days_since_j2000()));
            push(0, Unit::Century, catch(|| a.to_tdb_centuries_since_j2000()));
            push(1, Unit::Day, catch(|| a.to_jde_tdb_days()));
        }
        self.rec.ev(
            "dyn_view",
            format!("\"to\":{},\"dur\":{},\"jde\":{},\"views\":[{}]", ts_idx(dy), jres_dur(&dur), jres_dur(&jde), views.join(",")),
            true,
        );
    }
    /// Epoch::from_et_seconds / from_tdb_seconds
    pub fn from_dyn_seconds(&mut self, dy: TimeScale, x: f64) {
        self.rec.episode();
        let r = if dy == TimeScale::ET { catch(|| Epoch::from_et_seconds(x)) } else { catch(|| Epoch::from_tdb_seconds(x)) };
        let ok = r.clone().ok();
        self.rec.ev(
            "from_view",
            format!("\"view\":\"plain\",\"ts\":{},\"u\":{},\"x\":{},\"res\":{}", ts_idx(dy), unit_idx(Unit::Second), jf64(x), jres_epoch(&r)),
            true,
        );
        if let Some(e) = ok {
            self.e = e;
        }
    }
    pub fn round_trip(&mut self, via: TimeScale) {
        let a = self.e;
        let r = catch(|| a.to_time_scale(via).to_time_scale(a.time_scale));
        self.rec.ev("round_trip", format!("\"via\":{},\"res\":{}", ts_idx(via), jres_epoch(&r)), true);
    }
}

pub fn c07(rec: &mut Rec, lm: &Landmarks, rng: &mut Rng, thorough: bool) {
    let _ = lm;
    let mut m = EM::new(rec);
    let span = 100 * NPC as i128; // +/- 10 000 years
    let year = 31_558_432i128 * NS_S as i128; // anomalistic year, about
    // dense over one anomalistic year around J2000 (every 6 h; quick: every 2 days), from every uniform scale
    let step = if thorough { 6 * 3_600 } else { 48 * 3_600 } * NS_S as i128;
    let mut t = 0i128;
    let mut k = 0usize;
    while t < year {
        k += 1;
        let src = UNIF[k % 6];
        let off: i128 = match src {
            TimeScale::GPST | TimeScale::QZSST => 2_524_953_619,
            TimeScale::GST => 3_144_268_819,
            TimeScale::BDT => 3_345_062_433,
            _ => 0,
        };
        // around J2000 on the TAI axis
        let v = 3_155_716_800i128 * NS_S as i128 + t - off * NS_S as i128;
        for dy in DYN {
            m.eload_dur(src, ns_dur(v));
            m.to_scale(dy);
            m.to_scale(src);
            m.eload_dur(src, ns_dur(v));
            m.round_trip(dy);
        }
        t += step;
    }
    // every phase quadrant at the extremes of the range, and spread over it
    let mut centres: Vec<i128> = vec![-span, -span / 2, -(NPC as i128), 0, NPC as i128, span / 2, span - year];
    for _ in 0..(if thorough { 400 } else { 30 }) {
        centres.push((rng.i128().rem_euclid(2 * span)) - span);
    }
    for c in centres {
        for q in 0..8i128 {
            let v = c + q * year / 8 + rng.below(86_400) as i128 * NS_S as i128 + rng.below(NS_S) as i128;
            let src = UNIF[(q as usize) % 6];
            for dy in DYN {
                // v is a count in the dynamical scale (past J2000): both directions
                m.eload_dur(dy, ns_dur(v));
                m.to_scale(src);
                m.to_scale(dy);
                m.eload_dur(dy, ns_dur(v));
                m.to_dur(TimeScale::TAI, 1);
                m.eload_dur(src, ns_dur(v + 3_155_716_800i128 * NS_S as i128));
                m.to_dur(dy, 1);
                m.round_trip(dy);
                m.dyn_view(dy);
            }
        }
    }
    // the float constructors in the dynamical scales, then every view of the result
    for i in 0..(if thorough { 6_000 } else { 300 }) {
        let dy = DYN[i % 2];
        let x: f64 = match i % 4 {
            0 => (rng.below(2_000_000_000) as f64 - 1.0e9) + rng.below(1000) as f64 / 1000.0,
            1 => rng.below(1_000_000) as f64 * 0.000_001,
            2 => (rng.i128().rem_euclid(2 * span) - span) as f64 / 1.0e9,
            _ => [0.0, -0.0, 1.0, -1.0, 0.5, 1.0e-9, 32.184, 43_200.0, 6.3e11, -6.3e11][(i / 4) % 10],
        };
        m.from_dyn_seconds(dy, x);
        m.dyn_view(dy);
        m.to_scale(UNIF[i % 6]);
        m.dyn_view(DYN[(i / 2) % 2]);
    }
    // ET <-> TDB directly
    for _ in 0..(if thorough { 4_000 } else { 200 }) {
        let v = (rng.i128().rem_euclid(2 * span)) - span;
        m.eload_dur(TimeScale::ET, ns_dur(v));
        m.to_scale(TimeScale::TDB);
        m.to_scale(TimeScale::ET);
        // the accessors of one dynamical scale on an epoch held in the other
        m.to_dur(TimeScale::TDB, 1);
        m.dyn_view(TimeScale::TDB);
        m.eload_dur(TimeScale::TDB, ns_dur(v));
        m.to_dur(TimeScale::ET, 1);
        m.dyn_view(TimeScale::ET);
    }
    // random
    let n = if thorough { 40_000 } else { 1_500 };
    for i in 0..n {
        let dy = DYN[i % 2];
        let src = UNIF[(i / 2) % 6];
        let v = if rng.chance(1, 3) { elapsed_4digit(rng, dy) } else { (rng.i128().rem_euclid(2 * span)) - span };
        if i % 3 == 0 {
            m.eload_dur(dy, ns_dur(v));
            m.to_scale(src);
        } else {
            m.eload_dur(src, ns_dur(v + 3_155_716_800i128 * NS_S as i128));
            m.to_scale(dy);
            if i % 3 == 1 {
                m.to_scale(src);
            }
        }
    }
    // sorted sweeps: order preserved for instants more than 100 ns apart
    for (j, c) in [0i128, span / 3, -span / 3, span - year, -span].iter().enumerate() {
        for dy in DYN {
            for dir in 0..2 {
                m.rec.episode();
                let mut x = *c;
                let mut first = true;
                for _ in 0..(if thorough { 300 } else { 40 }) {
                    let (src, to) = if dir == 0 { (TimeScale::TAI, dy) } else { (dy, UNIF[j % 6]) };
                    let e = Epoch::from_duration(ns_dur(x + if dir == 0 { 3_155_716_800i128 * NS_S as i128 } else { 0 }), src);
                    let r = catch(|| e.to_time_scale(to));
                    m.rec.ev("sweep_dyn", format!("\"first\":{},\"src\":{},\"to\":{},\"res\":{}", jbool(first), jepoch(e), ts_idx(to), jres_epoch(&r)), true);
                    first = false;
                    x += match rng.below(4) {
                        0 => 101,
                        1 => 150,
                        2 => 1_000,
                        _ => 1_000_000_007,
                    };
                }
            }
        }
    }
    let _ = (EXACT.len(), NS_DAY, DurGen::new(lm).raw.len(), EpGen::new(lm, false).lms.len());
}
