//! Duration register machine driver: C01, C02, C03, C14 (and the decomposition part of C11).
use crate::lm::Landmarks;
use crate::rec::*;
use crate::rng::Rng;
use hifitime::{Duration, TimeUnits, Unit};

pub const NPC: u64 = 3_155_760_000_000_000_000;

/// Build an operand without letting a panic in the code under test kill the harness
/// (operand construction is not the call under judgement; the operand is logged as observed).
pub fn mk(c: i16, n: u64) -> Duration {
    catch(|| Duration::from_parts(c, n)).unwrap_or(Duration::ZERO)
}
pub fn safe(f: impl FnOnce() -> Duration) -> Duration {
    catch(f).unwrap_or(Duration::ZERO)
}

pub struct DM<'a> {
    pub rec: &'a mut Rec,
    pub d: Duration,
}

fn nontrivial_dur(d: Duration) -> bool {
    let (c, n) = d.to_parts();
    c != 0 || n != 0
}

impl<'a> DM<'a> {
    pub fn new(rec: &'a mut Rec) -> Self {
        DM { rec, d: Duration::ZERO }
    }

    fn set(&mut self, op: &str, args: String, r: Result<Duration, String>, nt: bool) {
        let body = if args.is_empty() {
            format!("\"res\":{}", jres_dur(&r))
        } else {
            format!("{},\"res\":{}", args, jres_dur(&r))
        };
        self.rec.ev(op, body, nt);
        if let Ok(v) = r {
            self.d = v;
        }
    }

    pub fn load(&mut self, c: i16, n: u64) {
        self.rec.episode();
        let r = catch(|| Duration::from_parts(c, n));
        self.set("load", format!("\"c\":{},\"n\":{}", c, limbs(n as u128)), r, c != 0 || n != 0);
    }
    pub fn from_total(&mut self, x: i128) {
        self.rec.episode();
        let r = catch(|| Duration::from_total_nanoseconds(x));
        self.set("from_total", format!("\"x\":{}", jbig(x)), r, x != 0);
    }
    pub fn from_trunc(&mut self, x: i64) {
        self.rec.episode();
        let r = catch(|| Duration::from_truncated_nanoseconds(x));
        self.set("from_trunc", format!("\"x\":{}", jbig(x as i128)), r, x != 0);
    }
    pub fn from_unit(&mut self, q: i64, u: Unit, form: u8) {
        self.rec.episode();
        let (op, r) = match form {
            0 => ("unit_mul", catch(|| u * q)),
            1 => ("mul_unit", catch(|| q * u)),
            _ => (
                "unit_trait",
                catch(|| match u {
                    Unit::Nanosecond => q.nanoseconds(),
                    Unit::Microsecond => q.microseconds(),
                    Unit::Millisecond => q.milliseconds(),
                    Unit::Second => q.seconds(),
                    Unit::Minute => q.minutes(),
                    Unit::Hour => q.hours(),
                    Unit::Day => q.days(),
                    Unit::Week => q.weeks(),
                    Unit::Century => q.centuries(),
                }),
            ),
        };
        self.set(op, format!("\"q\":{},\"u\":{}", jbig(q as i128), unit_idx(u)), r, q != 0);
    }
    pub fn add(&mut self, b: Duration, assign: bool) {
        let a = self.d;
        let r = if assign {
            catch(|| {
                let mut x = a;
                x += b;
                x
            })
        } else {
            catch(|| a + b)
        };
        self.set(if assign { "add_assign" } else { "add" }, format!("\"b\":{}", jdur(b)), r, nontrivial_dur(a) && nontrivial_dur(b));
    }
    pub fn sub(&mut self, b: Duration, assign: bool) {
        let a = self.d;
        let r = if assign {
            catch(|| {
                let mut x = a;
                x -= b;
                x
            })
        } else {
            catch(|| a - b)
        };
        self.set(if assign { "sub_assign" } else { "sub" }, format!("\"b\":{}", jdur(b)), r, nontrivial_dur(a) && nontrivial_dur(b));
    }
    pub fn add_unit(&mut self, u: Unit, assign: bool) {
        let a = self.d;
        let r = if assign {
            catch(|| {
                let mut x = a;
                x += u;
                x
            })
        } else {
            catch(|| a + u)
        };
        self.set(if assign { "add_assign_unit" } else { "add_unit" }, format!("\"u\":{}", unit_idx(u)), r, true);
    }
    pub fn sub_unit(&mut self, u: Unit, assign: bool) {
        let a = self.d;
        let r = if assign {
            catch(|| {
                let mut x = a;
                x -= u;
                x
            })
        } else {
            catch(|| a - u)
        };
        self.set(if assign { "sub_assign_unit" } else { "sub_unit" }, format!("\"u\":{}", unit_idx(u)), r, true);
    }
    /// Unit + Unit, Unit - Unit
    pub fn unit_pm_unit(&mut self, a: Unit, b: Unit, plus: bool) {
        self.rec.episode();
        let r = if plus { catch(|| a + b) } else { catch(|| a - b) };
        self.set(if plus { "unit_add_unit" } else { "unit_sub_unit" }, format!("\"a\":{},\"b\":{}", unit_idx(a), unit_idx(b)), r, true);
    }
    /// Duration::from_tz_offset(sign, hours, minutes)
    pub fn from_tz(&mut self, sign: i8, h: i64, mi: i64) {
        self.rec.episode();
        let r = catch(|| Duration::from_tz_offset(sign, h, mi));
        self.set("from_tz", format!("\"sign\":{},\"h\":{},\"mi\":{}", sign, jbig(h as i128), jbig(mi as i128)), r, h != 0 || mi != 0);
    }
    pub fn neg(&mut self) {
        let a = self.d;
        let r = catch(|| -a);
        self.set("neg", String::new(), r, nontrivial_dur(a));
    }
    pub fn abs(&mut self) {
        let a = self.d;
        let r = catch(|| a.abs());
        self.set("abs", String::new(), r, nontrivial_dur(a));
    }
    pub fn mul_i64(&mut self, q: i64, left: bool) {
        let a = self.d;
        let r = if left { catch(|| q * a) } else { catch(|| a * q) };
        self.set(if left { "i64_mul" } else { "mul_i64" }, format!("\"q\":{}", jbig(q as i128)), r, nontrivial_dur(a) && q != 0 && q != 1);
    }
    pub fn div_i64(&mut self, q: i64) {
        if q == 0 {
            return;
        }
        let a = self.d;
        let r = catch(|| a / q);
        self.set("div_i64", format!("\"q\":{}", jbig(q as i128)), r, nontrivial_dur(a) && q != 1);
    }
    pub fn snap(&mut self, which: u8, s: Duration) {
        let a = self.d;
        let (op, r) = match which {
            0 => ("floor", catch(|| a.floor(s))),
            1 => ("ceil", catch(|| a.ceil(s))),
            _ => ("round", catch(|| a.round(s))),
        };
        self.set(op, format!("\"s\":{}", jdur(s)), r, nontrivial_dur(a) && nontrivial_dur(s));
    }

    // ---- observers
    pub fn total(&mut self) {
        let a = self.d;
        let r = catch(|| a.total_nanoseconds());
        let body = match r {
            Ok(x) => format!("\"res\":{}", jbig(x)),
            Err(m) => format!("\"res\":{}", jpanic(&m)),
        };
        self.rec.ev("total", body, nontrivial_dur(a));
    }
    pub fn parts(&mut self) {
        let a = self.d;
        self.rec.ev("parts", format!("\"res\":{}", jdur(a)), nontrivial_dur(a));
    }
    pub fn signum(&mut self) {
        let a = self.d;
        self.rec.ev(
            "signum",
            format!("\"res\":{},\"neg\":{}", a.signum(), jbool(a.is_negative())),
            nontrivial_dur(a),
        );
    }
    pub fn try_trunc(&mut self) {
        let a = self.d;
        let r = catch(|| a.try_truncated_nanoseconds());
        let body = match r {
            Ok(Ok(x)) => format!("\"res\":{{\"ok\":{}}}", jbig(x as i128)),
            Ok(Err(_)) => "\"res\":{\"err\":1}".to_string(),
            Err(m) => format!("\"res\":{}", jpanic(&m)),
        };
        self.rec.ev("try_trunc", body, nontrivial_dur(a));
        let r = catch(|| a.truncated_nanoseconds());
        let body = match r {
            Ok(x) => format!("\"res\":{}", jbig(x as i128)),
            Err(m) => format!("\"res\":{}", jpanic(&m)),
        };
        self.rec.ev("trunc", body, nontrivial_dur(a));
    }
    pub fn cmp(&mut self, b: Duration) {
        let a = self.d;
        let r = catch(|| {
            let c = match a.cmp(&b) {
                std::cmp::Ordering::Less => -1,
                std::cmp::Ordering::Equal => 0,
                std::cmp::Ordering::Greater => 1,
            };
            let pc = match a.partial_cmp(&b) {
                Some(std::cmp::Ordering::Less) => -1,
                Some(std::cmp::Ordering::Equal) => 0,
                Some(std::cmp::Ordering::Greater) => 1,
                None => 2,
            };
            format!(
                "{{\"cmp\":{},\"pcmp\":{},\"lt\":{},\"le\":{},\"gt\":{},\"ge\":{},\"eq\":{},\"ne\":{},\"min\":{},\"max\":{}}}",
                c,
                pc,
                jbool(a < b),
                jbool(a <= b),
                jbool(a > b),
                jbool(a >= b),
                jbool(a == b),
                jbool(a != b),
                jdur(a.min(b)),
                jdur(a.max(b))
            )
        });
        let body = match r {
            Ok(s) => format!("\"b\":{},\"res\":{}", jdur(b), s),
            Err(m) => format!("\"b\":{},\"res\":{}", jdur(b), jpanic(&m)),
        };
        self.rec.ev("cmp", body, a.to_parts() != b.to_parts());
    }
    pub fn cmp_unit(&mut self, u: Unit) {
        let a = self.d;
        let r = catch(|| {
            let pc = match a.partial_cmp(&u) {
                Some(std::cmp::Ordering::Less) => -1,
                Some(std::cmp::Ordering::Equal) => 0,
                Some(std::cmp::Ordering::Greater) => 1,
                None => 2,
            };
            format!(
                "{{\"pcmp\":{},\"lt\":{},\"gt\":{},\"eq\":{}}}",
                pc,
                jbool(a < u),
                jbool(a > u),
                jbool(a == u)
            )
        });
        let body = match r {
            Ok(s) => format!("\"u\":{},\"res\":{}", unit_idx(u), s),
            Err(m) => format!("\"u\":{},\"res\":{}", unit_idx(u), jpanic(&m)),
        };
        self.rec.ev("cmp_unit", body, true);
    }
    pub fn decompose(&mut self) {
        let a = self.d;
        let r = catch(|| a.decompose());
        let body = match r {
            Ok((s, dd, h, m, sec, ms, us, ns)) => format!(
                "\"res\":{{\"v\":[{},{},{},{},{},{},{},{}]}}",
                s,
                limbs(dd as u128),
                limbs(h as u128),
                limbs(m as u128),
                limbs(sec as u128),
                limbs(ms as u128),
                limbs(us as u128),
                limbs(ns as u128)
            ),
            Err(m) => format!("\"res\":{}", jpanic(&m)),
        };
        self.rec.ev("decompose", body, nontrivial_dur(a));
    }
    pub fn compose(&mut self, sign: i8, f: [u64; 7]) {
        self.rec.episode();
        let r = catch(|| Duration::compose(sign, f[0], f[1], f[2], f[3], f[4], f[5], f[6]));
        let fs: Vec<String> = f.iter().map(|x| limbs(*x as u128)).collect();
        self.set("compose", format!("\"sign\":{},\"f\":[{}]", sign, fs.join(",")), r, f.iter().any(|x| *x != 0));
    }
    pub fn from_std(&mut self, secs: u64, nanos: u32) {
        self.rec.episode();
        let r = catch(|| Duration::from(std::time::Duration::new(secs, nanos)));
        self.set("from_std", format!("\"secs\":{},\"nanos\":{}", limbs(secs as u128), nanos), r, secs != 0 || nanos != 0);
    }
    pub fn into_std(&mut self) {
        let a = self.d;
        let r = catch(|| std::time::Duration::from(a));
        let body = match r {
            Ok(s) => format!("\"res\":{{\"secs\":{},\"nanos\":{}}}", limbs(s.as_secs() as u128), s.subsec_nanos()),
            Err(m) => format!("\"res\":{}", jpanic(&m)),
        };
        self.rec.ev("into_std", body, nontrivial_dur(a));
    }
}

pub fn sort_event(rec: &mut Rec, xs: &[Duration]) {
    rec.episode();
    let mut ys = xs.to_vec();
    let r = catch(|| {
        ys.sort();
        ys
    });
    let xin: Vec<String> = xs.iter().map(|d| jdur(*d)).collect();
    let body = match r {
        Ok(ys) => {
            let yo: Vec<String> = ys.iter().map(|d| jdur(*d)).collect();
            format!("\"xs\":[{}],\"res\":{{\"v\":[{}]}}", xin.join(","), yo.join(","))
        }
        Err(m) => format!("\"xs\":[{}],\"res\":{}", xin.join(","), jpanic(&m)),
    };
    rec.ev("sort", body, xs.len() > 1);
}

// ------------------------------------------------------------------ input generation

pub struct DurGen<'a> {
    pub lm: &'a Landmarks,
    pub raw: Vec<(i16, u64)>,
    pub core: Vec<(i16, u64)>,
}

impl<'a> DurGen<'a> {
    pub fn new(lm: &'a Landmarks) -> Self {
        let mut raw = Vec::new();
        for c in &lm.cents {
            for n in &lm.nanos {
                raw.push((*c, *n));
            }
        }
        let core_c: [i16; 10] = [-32768, -32767, -3, -2, -1, 0, 1, 2, 32766, 32767];
        let core_n: [u64; 6] = [0, 1, NPC / 2, NPC - 1, NPC, NPC + 1];
        let mut core = Vec::new();
        for c in core_c {
            for n in core_n {
                core.push((c, n));
            }
        }
        DurGen { lm, raw, core }
    }
    /// a raw constructor input: landmark, near-landmark, uniform, or log-uniform magnitude
    pub fn any_raw(&self, rng: &mut Rng) -> (i16, u64) {
        match rng.below(10) {
            0..=3 => *rng.pick(&self.raw),
            4 | 5 => {
                let (c, n) = *rng.pick(&self.raw);
                let delta = rng.below(2000) as i64 - 1000;
                (c, (n as i128 + delta as i128).clamp(0, u64::MAX as i128) as u64)
            }
            6 => (rng.u64() as i16, rng.u64()),
            7 => (rng.u64() as i16, rng.below(NPC)),
            8 => ((rng.below(9) as i16) - 4, rng.below(NPC)),
            _ => {
                let x = rng.log_i128(76);
                let c = x.div_euclid(NPC as i128);
                let n = x.rem_euclid(NPC as i128);
                (c.clamp(-32768, 32767) as i16, n as u64)
            }
        }
    }
    pub fn any_dur(&self, rng: &mut Rng) -> Duration {
        let (c, n) = self.any_raw(rng);
        mk(c, n)
    }
    pub fn any_i64(&self, rng: &mut Rng) -> i64 {
        match rng.below(10) {
            0..=4 => *rng.pick(&self.lm.i64s),
            5 => rng.u64() as i64,
            6 => rng.range_i64(-20, 20),
            _ => rng.log_i128(63).clamp(i64::MIN as i128, i64::MAX as i128) as i64,
        }
    }
}

pub fn c01(rec: &mut Rec, lm: &Landmarks, rng: &mut Rng, thorough: bool) {
    let g = DurGen::new(lm);
    let mut m = DM::new(rec);
    // (1) full cross of the core boundary set, all binary forms
    for &(ac, an) in &g.core {
        for &(bc, bn) in &g.core {
            let b = mk(bc, bn);
            m.load(ac, an);
            m.add(b, false);
            m.load(ac, an);
            m.sub(b, false);
        }
        m.load(ac, an);
        m.neg();
        m.load(ac, an);
        m.abs();
    }
    // (2) every raw landmark against sampled partners (all of them in the thorough tier)
    let partners = if thorough { g.raw.len() } else { 12 };
    for i in 0..g.raw.len() {
        let (ac, an) = g.raw[i];
        for k in 0..partners {
            let (bc, bn) = if thorough { g.raw[k] } else { *rng.pick(&g.raw) };
            let b = mk(bc, bn);
            m.load(ac, an);
            m.add(b, k % 2 == 1);
            m.load(ac, an);
            m.sub(b, k % 2 == 1);
        }
        m.load(ac, an);
        m.neg();
        m.neg();
        m.load(ac, an);
        m.abs();
        for u in UNITS {
            m.load(ac, an);
            m.add_unit(u, i % 2 == 0);
            m.load(ac, an);
            m.sub_unit(u, i % 2 == 0);
        }
        let nq = if thorough { lm.i64s.len() } else { 10 };
        for k in 0..nq {
            let q = if thorough { lm.i64s[k] } else { *rng.pick(&lm.i64s) };
            m.load(ac, an);
            m.mul_i64(q, k % 2 == 0);
            m.load(ac, an);
            m.div_i64(q);
        }
    }
    for a in UNITS {
        for b in UNITS {
            m.unit_pm_unit(a, b, true);
            m.unit_pm_unit(a, b, false);
        }
    }
    // (3) random chains of operations on the register
    let chains = if thorough { 40_000 } else { 1_500 };
    for _ in 0..chains {
        let (c, n) = g.any_raw(rng);
        m.load(c, n);
        let len = 1 + rng.below(6);
        for _ in 0..len {
            match rng.below(9) {
                0 | 1 => {
                    let b = g.any_dur(rng);
                    m.add(b, rng.chance(1, 3));
                }
                2 | 3 => {
                    let b = g.any_dur(rng);
                    m.sub(b, rng.chance(1, 3));
                }
                4 => m.neg(),
                5 => m.abs(),
                6 => {
                    let q = g.any_i64(rng);
                    m.mul_i64(q, rng.chance(1, 2));
                }
                7 => {
                    let q = g.any_i64(rng);
                    m.div_i64(q);
                }
                _ => {
                    let u = *rng.pick(&UNITS);
                    if rng.chance(1, 2) {
                        m.add_unit(u, rng.chance(1, 2));
                    } else {
                        m.sub_unit(u, rng.chance(1, 2));
                    }
                }
            }
        }
    }
}

pub fn c02(rec: &mut Rec, lm: &Landmarks, rng: &mut Rng, thorough: bool) {
    let g = DurGen::new(lm);
    let mut m = DM::new(rec);
    // from_parts / to_parts / total / truncated on every raw landmark
    for &(c, n) in &g.raw {
        m.load(c, n);
        m.parts();
        m.total();
        m.try_trunc();
        m.into_std();
    }
    // from_total_nanoseconds and read-back
    for &x in &lm.i128s {
        m.from_total(x);
        m.total();
        m.parts();
        m.try_trunc();
    }
    // from_truncated_nanoseconds
    for &x in &lm.i64s {
        m.from_trunc(x);
        m.total();
        m.try_trunc();
    }
    // integer counts of each unit, in the three spellings
    for &q in &lm.i64s {
        for (k, u) in UNITS.iter().enumerate() {
            m.from_unit(q, *u, (k % 3) as u8);
            m.total();
        }
    }
    // composed fields
    let fields: [u64; 12] = [0, 1, 2, 23, 59, 60, 999, 1000, 86_399, 7_000_001, (1 << 53) - 1, 1 << 32];
    let ncomp = if thorough { 30_000 } else { 2_500 };
    for i in 0..ncomp {
        let mut f = [0u64; 7];
        for k in 0..7 {
            f[k] = match rng.below(6) {
                0 => 0,
                1 | 2 => *rng.pick(&fields),
                3 => rng.below(1 << 53),
                4 => rng.below(100_000),
                _ => rng.below(1000),
            };
        }
        // "set the sign to a negative number for the duration to be negative": any i8
        let sign: i8 = match rng.below(8) {
            0 | 1 => -1,
            2 | 3 => 1,
            4 => 0,
            5 => -(2 + rng.below(127) as i16) as i8,
            6 => (2 + rng.below(126)) as i8,
            _ => *rng.pick(&[i8::MIN, -2, 2, i8::MAX]),
        };
        m.compose(sign, f);
        m.total();
    }
    m.compose(1, [7_000_001, 0, 0, 0, 0, 0, 1]);
    m.compose(-1, [0, 0, 0, 0, 0, 0, 0]);
    // time zone offsets
    for sign in [-1i8, 0, 1, -2, i8::MIN, 2, i8::MAX] {
        for (h, mi) in [(0i64, 0i64), (1, 30), (23, 59), (-5, 0), (5, -30), (100_000, 7), (i64::MAX / 3_600_000_000_000, 0), (2_562_047, 47), (2_562_048, 0)] {
            m.from_tz(sign, h, mi);
            m.total();
        }
    }
    // std durations
    for secs in [0u64, 1, 59, 86_400, 3_155_760_000, 103_407_943_680_000, 103_407_943_680_001, u64::MAX / 2, u64::MAX] {
        for nanos in [0u32, 1, 999_999_999] {
            m.from_std(secs, nanos);
            m.total();
            m.into_std();
        }
    }
    // ... and every non-negative landmark total of the specification's boundary alphabet (century multiples, the
    // 64-bit limits, 2^64 +/- 2) split into whole seconds and nanoseconds
    for &x in &lm.i128s {
        if x >= 0 && x / 1_000_000_000 <= u64::MAX as i128 {
            m.from_std((x / 1_000_000_000) as u64, (x % 1_000_000_000) as u32);
            m.total();
            m.parts();
            m.into_std();
        }
    }
    // random
    let nr = if thorough { 150_000 } else { 6_000 };
    for _ in 0..nr {
        match rng.below(5) {
            0 => {
                let (c, n) = g.any_raw(rng);
                m.load(c, n);
            }
            1 => {
                let x = if rng.chance(1, 2) { rng.log_i128(127) } else { rng.i128() };
                m.from_total(x);
            }
            2 => {
                let q = g.any_i64(rng);
                m.from_trunc(q);
            }
            3 => {
                let q = g.any_i64(rng);
                let u = *rng.pick(&UNITS);
                m.from_unit(q, u, rng.below(3) as u8);
            }
            _ => {
                let secs = if rng.chance(1, 2) { rng.below(200_000_000_000_000) } else { rng.u64() };
                m.from_std(secs, rng.below(1_000_000_000) as u32);
            }
        }
        m.total();
        m.parts();
        m.try_trunc();
    }
}

pub fn c03(rec: &mut Rec, lm: &Landmarks, rng: &mut Rng, thorough: bool) {
    let g = DurGen::new(lm);
    let mut m = DM::new(rec);
    for &(ac, an) in &g.core {
        for &(bc, bn) in &g.core {
            m.load(ac, an);
            m.cmp(mk(bc, bn));
        }
    }
    // the families the hand-written == special-cases: (c, x) vs (c +/- 1, NPC - x), around zero and elsewhere
    let xs: [u64; 9] = [0, 1, 2, 900_000_000_000, NPC / 2 - 1, NPC / 2, NPC / 2 + 1, NPC - 2, NPC - 1];
    for c in [-3i16, -2, -1, 0, 1, 2, 100, -100, 32766, -32767] {
        for &x in &xs {
            for dc in [-1i16, 0, 1] {
                m.load(c, x);
                m.cmp(mk(c + dc, NPC - x));
                m.load(c, x);
                m.cmp(mk(c + dc, x));
                m.load(c, x);
                m.cmp(safe(|| -Duration::from_parts(c, x)));
            }
        }
    }
    let partners = if thorough { g.raw.len() } else { 10 };
    for i in 0..g.raw.len() {
        let (ac, an) = g.raw[i];
        for k in 0..partners {
            let (bc, bn) = if thorough { g.raw[k] } else { *rng.pick(&g.raw) };
            m.load(ac, an);
            m.cmp(mk(bc, bn));
        }
        m.load(ac, an);
        for u in UNITS {
            m.cmp_unit(u);
        }
    }
    for u in UNITS {
        for q in [-1i64, 0, 1, 2] {
            m.from_unit(q, u, 0);
            for v in UNITS {
                m.cmp_unit(v);
            }
        }
    }
    // a + b > a  <=>  b > 0  (recorded as: add, then compare the result with the old value)
    let nr = if thorough { 120_000 } else { 5_000 };
    for _ in 0..nr {
        let (c, n) = g.any_raw(rng);
        m.load(c, n);
        let a = m.d;
        let b = if rng.chance(1, 3) {
            // near: a +/- tiny
            let dn = rng.below(5) as i64 - 2;
            safe(|| a + dn * Unit::Nanosecond)
        } else {
            g.any_dur(rng)
        };
        m.cmp(b);
        if rng.chance(1, 3) {
            m.add(b, false);
            m.cmp(a);
        }
    }
    // sorting
    let ns = if thorough { 4_000 } else { 250 };
    for _ in 0..ns {
        let len = 2 + rng.below(14) as usize;
        let mut xs = Vec::new();
        for _ in 0..len {
            let d = if !xs.is_empty() && rng.chance(1, 4) {
                let p: Duration = *rng.pick(&xs);
                match rng.below(3) {
                    0 => p,
                    1 => safe(|| -p),
                    _ => safe(|| p + 1 * Unit::Nanosecond),
                }
            } else {
                g.any_dur(rng)
            };
            xs.push(d);
        }
        sort_event(m.rec, &xs);
    }
}

pub fn step_landmarks() -> Vec<Duration> {
    let mut v = Vec::new();
    for u in UNITS {
        v.push(safe(|| 1 * u));
        v.push(safe(|| -1 * u));
        v.push(safe(|| 3 * u));
    }
    v.push(safe(|| 7 * Unit::Nanosecond));
    v.push(safe(|| 90 * Unit::Minute));
    v.push(safe(|| 1 * Unit::Hour + 5 * Unit::Minute));
    v.push(mk(0, NPC - 1));
    v.push(mk(1, 1));
    v.push(mk(-2, 5));
    v.push(mk(300, 0));
    v.push(Duration::MAX);
    v.push(Duration::MIN);
    v.push(Duration::ZERO);
    v
}

pub fn c14_durations(m: &mut DM, g: &DurGen, rng: &mut Rng, thorough: bool) {
    let steps = step_landmarks();
    // approx(): round to one unit of the largest non-zero component
    for i in 0..(if thorough { 30_000 } else { 1_500 }) {
        let v: i128 = match i % 3 {
            0 => rng.log_i128(66),
            1 => (rng.below(100) as i128) * *rng.pick(&[1i128, 1000, 1_000_000, 1_000_000_000, 60_000_000_000, 3_600_000_000_000, 86_400_000_000_000]) + rng.below(3) as i128 - 1,
            _ => rng.below(3 * 86_400_000_000_000) as i128 - 86_400_000_000_000,
        };
        let (c, n) = safe(|| Duration::from_total_nanoseconds(v)).to_parts();
        m.load(c, n);
        let a = m.d;
        let r = catch(|| a.approx());
        m.rec.ev("x_approx", format!("\"res\":{}", jres_dur(&r)), true);
    }
    // approx() at the ties: (k + 1/2) units of the largest component, both signs, and one nanosecond either side
    for unit_ns in [1_000i128, 1_000_000, 1_000_000_000, 60_000_000_000, 3_600_000_000_000, 86_400_000_000_000] {
        for k in [1i128, 2, 7, 10, 23] {
            for sign in [1i128, -1] {
                for dn in [-1i128, 0, 1] {
                    let v = sign * (k * unit_ns + unit_ns / 2) + dn;
                    let (c, n) = safe(|| Duration::from_total_nanoseconds(v)).to_parts();
                    m.load(c, n);
                    let a = m.d;
                    let r = catch(|| a.approx());
                    m.rec.ev("x_approx", format!("\"res\":{}", jres_dur(&r)), true);
                }
            }
        }
    }
    // floor / ceil / round at the half-way points (k + 1/2) |s| and one nanosecond either side, both signs
    for s in &steps {
        let (sc, sn) = s.to_parts();
        let st = ((sc as i128) * NPC as i128 + sn as i128).abs();
        let half = st / 2;
        if half == 0 {
            continue;
        }
        for k in [-3i128, -2, -1, 0, 1, 2, 1000] {
            for dn in [-1i128, 0, 1] {
                let (c, n) = safe(|| Duration::from_total_nanoseconds(k * st + half + dn)).to_parts();
                for w in 0..3u8 {
                    m.load(c, n);
                    m.snap(w, *s);
                }
            }
        }
    }
    // values at multiples of the step +/- 1 ns, both signs
    for s in &steps {
        for k in [-3i64, -2, -1, 0, 1, 2, 3, 1000, -1000] {
            for dn in [-1i64, 0, 1] {
                let sv = *s;
                let base = safe(|| sv.abs() * k + dn * Unit::Nanosecond);
                let (c, n) = base.to_parts();
                for w in 0..3u8 {
                    m.load(c, n);
                    m.snap(w, *s);
                }
            }
        }
    }
    let hand: [(Duration, Duration); 4] = [
        (safe(|| -(2 * Unit::Hour + 3 * Unit::Minute)), safe(|| 1 * Unit::Hour)),
        (safe(|| 2 * Unit::Hour + 3 * Unit::Minute), safe(|| 1 * Unit::Hour)),
        (safe(|| -(1 * Unit::Nanosecond)), safe(|| 1 * Unit::Day)),
        (mk(-2, 5), safe(|| 1 * Unit::Century)),
    ];
    for (dd, s) in hand {
        let (c, n) = dd.to_parts();
        for w in 0..3u8 {
            m.load(c, n);
            m.snap(w, s);
        }
    }
    let per = if thorough { 40 } else { 4 };
    for i in 0..g.raw.len() {
        let (c, n) = g.raw[i];
        for _ in 0..per {
            let s = if rng.chance(1, 2) { *rng.pick(&steps) } else { g.any_dur(rng) };
            m.load(c, n);
            m.snap(rng.below(3) as u8, s);
        }
    }
    let nr = if thorough { 150_000 } else { 6_000 };
    for _ in 0..nr {
        let (c, n) = g.any_raw(rng);
        let s = match rng.below(4) {
            0 => *rng.pick(&steps),
            1 => {
                let q = rng.range_i64(1, 100_000);
                let u = *rng.pick(&UNITS);
                let neg = rng.chance(1, 4);
                safe(|| if neg { -(q * u) } else { q * u })
            }
            2 => {
                let x = rng.log_i128(70);
                safe(|| Duration::from_total_nanoseconds(x))
            }
            _ => g.any_dur(rng),
        };
        m.load(c, n);
        m.snap(rng.below(3) as u8, s);
    }
}

/// A small fixed trace over all event kinds of the Duration machine, kept in one shard
/// (used by `bin/check selftest` to demonstrate that corrupted traces are rejected).
pub fn selftest(rec: &mut Rec, lm: &Landmarks, rng: &mut Rng) {
    let g = DurGen::new(lm);
    let mut m = DM::new(rec);
    m.rec.pinned = true;
    for i in 0..60u64 {
        m.load((i as i16) - 30, 1 + i * 1_000_000_007);
        let b = mk(3 - (i % 7) as i16, 17 + i * 999_999_937);
        m.add(b, false);
        m.neg();
        m.neg();
        m.sub(b, true);
        m.mul_i64(3 + (i as i64 % 5), false);
        m.cmp(b);
        m.div_i64(7);
        m.snap((i % 3) as u8, mk(0, 1_000_000_000 * (1 + i)));
        m.total();
        m.parts();
        let _ = g.any_i64(rng);
    }
}

// ------------------------------------------------------------------ L2: TLC-generated behaviours

/// scaled value (NPC = 12, centuries -3..2) -> a real (centuries, nanoseconds) of the same case class
pub fn concretise(v: i64, variant: u64) -> (i16, u64) {
    const RES: [u64; 12] = [0, 1, 2, 1_000, 1_000_000_000, NPC / 2 - 1, NPC / 2, NPC / 2 + 1, 86_400_000_000_000, NPC - 1_000, NPC - 2, NPC - 1];
    if v >= 36 {
        return (32767, NPC);
    }
    let cs = v.div_euclid(12);
    let r = v.rem_euclid(12) as usize;
    let c: i16 = match cs {
        -3 => -32768,
        -2 => [-2i16, -32767, -3, -100][(variant % 4) as usize],
        -1 => -1,
        0 => 0,
        1 => [1i16, 2, 99, 32766][(variant % 4) as usize],
        _ => 32767,
    };
    (c, RES[r])
}
pub fn concretise_factor(q: i64) -> i64 {
    let m: [i64; 8] = [0, 1, 2, 3, 1000, 1 << 31, NPC as i64, i64::MAX];
    let a = m[q.unsigned_abs() as usize % 8];
    if q < 0 {
        if a == i64::MAX {
            i64::MIN
        } else {
            -a
        }
    } else {
        a
    }
}

/// replay behaviours printed by TLC from spec/Gen_Duration.tla (one JSON array of steps per line)
pub fn l2_durations(rec: &mut Rec, path: &str, allowed: &[&str]) -> u64 {
    let txt = match std::fs::read_to_string(path) {
        Ok(t) => t,
        Err(_) => return 0,
    };
    let mut m = DM::new(rec);
    let mut nb = 0u64;
    for line in txt.lines() {
        let v: serde_json::Value = match serde_json::from_str(line) {
            Ok(v) => v,
            Err(_) => continue,
        };
        nb += 1;
        // every behaviour starts from a defined register
        m.load(0, 0);
        for (k, step) in v.as_array().unwrap().iter().enumerate() {
            let op = step["op"].as_str().unwrap_or("");
            if !allowed.contains(&op) {
                continue; // calls that are not the subject of the property being checked are left out
            }
            let a: Vec<i64> = step["a"].as_array().map(|x| x.iter().map(|y| y.as_i64().unwrap_or(0)).collect()).unwrap_or_default();
            let var = nb + k as u64;
            let dur = |x: i64| {
                let (c, n) = concretise(x, var);
                mk(c, n)
            };
            match op {
                "load" => {
                    let (c, _) = concretise(a[0] * 12, var);
                    let extra = (a[1] / 12) as u64;
                    let (_, n) = concretise(a[1] % 12, var);
                    m.load(c, extra * NPC + n);
                }
                "add" => m.add(dur(a[0]), k % 2 == 0),
                "sub" => m.sub(dur(a[0]), k % 2 == 0),
                "cmp" => m.cmp(dur(a[0])),
                "neg" => m.neg(),
                "abs" => m.abs(),
                "total" => {
                    m.total();
                    m.parts();
                    m.try_trunc();
                }
                "decompose" => m.decompose(),
                "mul" => m.mul_i64(concretise_factor(a[0]), k % 2 == 0),
                "div" => m.div_i64(concretise_factor(a[0])),
                "floor" => m.snap(0, dur(a[0])),
                "ceil" => m.snap(1, dur(a[0])),
                "round" => m.snap(2, dur(a[0])),
                _ => {}
            }
        }
    }
    nb
}
