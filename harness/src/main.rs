//! hv: drives the real hifitime API and records every call as one ndjson event.
//!
//! usage: hv <property> --tier quick|thorough --seed N --out DIR --landmarks FILE
mod lm;
mod p_duration;
mod rec;
mod rng;

use rec::Rec;

fn arg(args: &[String], name: &str, default: &str) -> String {
    for i in 0..args.len() {
        if args[i] == name && i + 1 < args.len() {
            return args[i + 1].clone();
        }
    }
    default.to_string()
}

fn main() {
    let args: Vec<String> = std::env::args().collect();
    if args.len() < 2 {
        eprintln!("usage: hv <property> --tier quick|thorough --seed N --out DIR --landmarks FILE");
        std::process::exit(2);
    }
    // panics in the code under test are data: keep stderr quiet
    std::panic::set_hook(Box::new(|_| {}));
    let prop = args[1].clone();
    let thorough = arg(&args, "--tier", "quick") == "thorough";
    let seed: u64 = arg(&args, "--seed", "1").parse().unwrap_or(1);
    let out = arg(&args, "--out", "work/out");
    let lmf = arg(&args, "--landmarks", "work/landmarks.json");
    let lm = lm::Landmarks::load(&lmf);
    let mut rng = rng::Rng::new(seed.wrapping_mul(0x2545F4914F6CDD1D) ^ prop.bytes().fold(0u64, |a, b| a * 131 + b as u64));
    let mut rec = Rec::new(&out);
    match prop.as_str() {
        "C01" => p_duration::c01(&mut rec, &lm, &mut rng, thorough),
        "C02" => p_duration::c02(&mut rec, &lm, &mut rng, thorough),
        "C03" => p_duration::c03(&mut rec, &lm, &mut rng, thorough),
        "SELFTEST" => {
            rec.pinned = true;
            rec.episode();
            rec.pinned = true;
            p_duration::selftest(&mut rec, &lm, &mut rng);
        }
        "C14" => {
            let g = p_duration::DurGen::new(&lm);
            let mut m = p_duration::DM::new(&mut rec);
            p_duration::c14_durations(&mut m, &g, &mut rng, thorough);
        }
        _ => {
            eprintln!("unknown property {prop}");
            std::process::exit(2);
        }
    }
    rec.finish(&prop, "");
}
