//! hv: drives the real hifitime API and records every call as one ndjson event.
//!
//! usage: hv <property> --tier quick|thorough --seed N --out DIR --landmarks FILE
mod lm;
mod p_duration;
mod p_epoch;
mod p_float;
mod p_misc;
mod p_text;
mod rec;
mod rng;

use rec::Rec;

fn arg(args: &[String], name: &str, default: &str) -> String {
    for i in 0..args.len() {
        if args[i] == name && i + 1 < args.len() {
            return args[i + 1].clone();
        }
    }
    default.to_string()
}

fn main() {
    let args: Vec<String> = std::env::args().collect();
    if args.len() < 2 {
        eprintln!("usage: hv <property> --tier quick|thorough --seed N --out DIR --landmarks FILE");
        std::process::exit(2);
    }
    // panics in the code under test are data: keep stderr quiet
    std::panic::set_hook(Box::new(|info| {
        if !rec::IN_CATCH.with(|c| c.get()) {
            eprintln!("harness panic (not in code under test): {info}");
        }
    }));
    let prop = args[1].clone();
    let thorough = arg(&args, "--tier", "quick") == "thorough";
    let seed: u64 = arg(&args, "--seed", "1").parse().unwrap_or(1);
    let out = arg(&args, "--out", "work/out");
    let lmf = arg(&args, "--landmarks", "work/landmarks.json");
    let lm = lm::Landmarks::load(&lmf);
    let mut rng = rng::Rng::new(seed.wrapping_mul(0x2545F4914F6CDD1D) ^ prop.bytes().fold(0u64, |a, b| a * 131 + b as u64));
    let mut rec = Rec::new(&out);
    match prop.as_str() {
        "C01" => p_duration::c01(&mut rec, &lm, &mut rng, thorough),
        "C02" => p_duration::c02(&mut rec, &lm, &mut rng, thorough),
        "C03" => p_duration::c03(&mut rec, &lm, &mut rng, thorough),
        "SELFTEST" => {
            rec.pinned = true;
            rec.episode();
            rec.pinned = true;
            p_duration::selftest(&mut rec, &lm, &mut rng);
        }
        "C14" => {
            {
                let g = p_duration::DurGen::new(&lm);
                let mut m = p_duration::DM::new(&mut rec);
                p_duration::c14_durations(&mut m, &g, &mut rng, thorough);
            }
            let g = p_epoch::EpGen::new(&lm, false);
            let mut m = p_epoch::EM::new(&mut rec);
            p_epoch::c14_epochs(&mut m, &g, &mut rng, thorough);
        }
        "C04" => p_epoch::c04(&mut rec, &lm, &mut rng, thorough),
        "C05" => p_epoch::c05(&mut rec, &lm, &mut rng, thorough),
        "C06" => p_epoch::c06(&mut rec, &lm, &mut rng, thorough),
        "C08" => p_epoch::c08(&mut rec, &lm, &mut rng, thorough),
        "C12" => p_epoch::c12(&mut rec, &lm, &mut rng, thorough),
        "C15" => p_misc::c15(&mut rec, &lm, &mut rng, thorough),
        "C16" => {
            p_misc::c16_weekday(&mut rec);
            let g = p_epoch::EpGen::new(&lm, false);
            let mut m = p_epoch::EM::new(&mut rec);
            p_epoch::c16_epochs(&mut m, &g, &mut rng, thorough);
        }
        "C09" => p_text::c09(&mut rec, &lm, &mut rng, thorough),
        "C10" => {
            p_text::c10(&mut rec, &lm, &mut rng, thorough);
            let mut m = p_epoch::EM::new(&mut rec);
            p_float::c10_numeric(&mut m, &mut rng, thorough);
        }
        "C07" => p_float::c07(&mut rec, &lm, &mut rng, thorough),
        "C17" => p_float::c17(&mut rec, &lm, &mut rng, thorough),
        "C18" => p_float::c18(&mut rec, &lm, &mut rng, thorough),
        "C11" => p_text::c11(&mut rec, &lm, &mut rng, thorough),
        "C13" => p_text::c13(&mut rec, &lm, &mut rng, thorough),
        "C19" => p_text::c19(&mut rec, &lm, &mut rng, thorough),
        "C20" => {
            let g = p_epoch::EpGen::new(&lm, false);
            let mut m = p_epoch::EM::new(&mut rec);
            p_epoch::c20_tow(&mut m, &g, &mut rng, thorough);
            p_float::c20_doy(&mut m, &mut rng, thorough);
        }
        "C09F" => {
            let mut m = p_epoch::EM::new(&mut rec);
            p_epoch::c09_fields(&mut m, &mut rng, thorough, false, true);
        }
        "C16E" => {
            let g = p_epoch::EpGen::new(&lm, false);
            let mut m = p_epoch::EM::new(&mut rec);
            p_epoch::c16_epochs(&mut m, &g, &mut rng, thorough);
        }
        "C20T" => {
            let g = p_epoch::EpGen::new(&lm, false);
            let mut m = p_epoch::EM::new(&mut rec);
            p_epoch::c20_tow(&mut m, &g, &mut rng, thorough);
        }
        _ => {
            eprintln!("unknown property {prop}");
            std::process::exit(2);
        }
    }
    rec.finish(&prop, "");
}
