//! Text: C09 (Display), C10 (round trips), C11 (duration text), C13 (parser totality), C19 (formats).
use crate::lm::Landmarks;
use crate::p_duration::{safe, DurGen, DM, NPC};
use crate::p_epoch::{civil_from_days, days_from_civil, dim, is_leap, ns_dur, safe_epoch, years, EpGen, EM, EXACT, NS_DAY, NS_S};
use crate::rec::*;
use crate::rng::Rng;
use hifitime::efmt::{consts, Format, Formatter};
use hifitime::{Duration, Epoch, MonthName, TimeScale, Unit, Weekday};
use std::str::FromStr;

fn jtext(r: &Result<String, String>) -> String {
    match r {
        Ok(s) => format!("{{\"v\":{}}}", jstr(s)),
        Err(m) => jpanic(m),
    }
}

pub const DEADLINE_S: u64 = 8;

fn jparsed_epoch(r: &Option<Result<Result<Epoch, ()>, String>>) -> String {
    match r {
        Some(Ok(Ok(e))) => jepoch(*e),
        Some(Ok(Err(_))) => "{\"err\":1}".to_string(),
        Some(Err(m)) => jpanic(m),
        None => "{\"hang\":true}".to_string(),
    }
}

impl<'a> EM<'a> {
    pub fn fmt_epoch(&mut self, form: &str, to: TimeScale) -> Option<String> {
        let a = self.e;
        let r: Result<String, String> = match form {
            "display" => catch(|| format!("{a}")),
            "debug" => catch(|| format!("{a:?}")),
            "lowerhex" => catch(|| format!("{a:x}")),
            "upperhex" => catch(|| format!("{a:X}")),
            "lowerexp" => catch(|| format!("{a:e}")),
            "upperexp" => catch(|| format!("{a:E}")),
            "greg_str" => catch(|| a.to_gregorian_str(to)),
            "rfc3339" => catch(|| a.to_rfc3339()),
            "iso8601" => catch(|| format!("{}", Formatter::new(a, consts::ISO8601))),
            // Serialize: the content of the JSON string, by to_string and by to_value (they must agree)
            "serde" => catch(|| {
                let s = serde_json::to_string(&a).unwrap();
                let v = serde_json::to_value(a).unwrap();
                let inner = serde_json::from_str::<String>(&s).unwrap();
                assert_eq!(inner, v.as_str().unwrap(), "to_string and to_value differ");
                inner
            }),
            _ => catch(|| a.to_isoformat()),
        };
        self.rec.ev("fmt_epoch", format!("\"form\":\"{}\",\"to\":{},\"res\":{}", form, ts_idx(to), jtext(&r)), true);
        r.ok()
    }
    pub fn accessors(&mut self) {
        let a = self.e;
        let r = catch(|| (a.year(), a.month_name() as u8 + 1));
        let res = match r {
            Ok((y, m)) => format!("{{\"year\":{y},\"month\":{m}}}"),
            Err(m) => jpanic(&m),
        };
        self.rec.ev("accessors", format!("\"res\":{}", res), true);
    }
    pub fn epoch_hms(&mut self) {
        let a = self.e;
        let r = catch(|| [a.hours(), a.minutes(), a.seconds(), a.milliseconds(), a.microseconds(), a.nanoseconds()]);
        let res = match r {
            Ok(v) => format!("{{\"v\":[{}]}}", v.iter().map(|x| limbs(*x as u128)).collect::<Vec<_>>().join(",")),
            Err(m) => jpanic(&m),
        };
        self.rec.ev("epoch_hms", format!("\"res\":{}", res), true);
    }
    /// parse `s` as an epoch through one of the entry points; the register becomes the parsed value
    pub fn parse_epoch(&mut self, via: &str, s: &str) {
        let owned = s.to_string();
        let v = via.to_string();
        let r = with_deadline(DEADLINE_S, move || match v.as_str() {
            "from_str" => Epoch::from_str(&owned).map_err(|_| ()),
            "greg_str" => Epoch::from_gregorian_str(&owned).map_err(|_| ()),
            x => serde_parse::<Epoch>(x, &owned),
        });
        self.rec.ev("parse_epoch", format!("\"via\":\"{}\",\"s\":{},\"res\":{}", via, jstr(s), jparsed_epoch(&r)), true);
        if let Some(Ok(Ok(e))) = r {
            self.e = e;
        }
    }
}

/// JSON text of the string `s`; `escape` writes every character as a \\uXXXX escape (surrogate pairs beyond
/// the BMP), which no deserializer can lend out as a borrowed str
pub fn json_string(s: &str, escape: bool) -> String {
    if !escape {
        return serde_json::to_string(s).unwrap();
    }
    let mut o = String::from("\"");
    for c in s.chars() {
        let mut b = [0u16; 2];
        for u in c.encode_utf16(&mut b) {
            o.push_str(&format!("\\u{:04x}", u));
        }
    }
    o.push('"');
    o
}

/// deserialize `s` (the content of a JSON string) through one of serde_json's entry points
pub fn serde_parse<T: serde::de::DeserializeOwned>(via: &str, s: &str) -> Result<T, ()> {
    match via {
        "serde_value" => serde_json::from_value::<T>(serde_json::Value::String(s.to_string())).map_err(|_| ()),
        "serde_reader" => serde_json::from_reader::<_, T>(json_string(s, false).as_bytes()).map_err(|_| ()),
        "serde_esc" => serde_json::from_str::<T>(&json_string(s, true)).map_err(|_| ()),
        "serde_slice" => serde_json::from_slice::<T>(json_string(s, false).as_bytes()).map_err(|_| ()),
        _ => serde_json::from_str::<T>(&json_string(s, false)).map_err(|_| ()),
    }
}
pub const SERDE_VIAS: [&str; 5] = ["serde", "serde_value", "serde_reader", "serde_esc", "serde_slice"];

impl<'a> DM<'a> {
    pub fn fmt_dur(&mut self, serde: bool) -> Option<String> {
        let a = self.d;
        let r = if serde {
            catch(|| {
                let s = serde_json::to_string(&a).unwrap();
                let v = serde_json::to_value(a).unwrap();
                assert_eq!(serde_json::from_str::<String>(&s).unwrap(), v.as_str().unwrap(), "to_string and to_value differ");
                v.as_str().unwrap().to_string()
            })
        } else {
            catch(|| format!("{a}"))
        };
        self.rec.ev("fmt_dur", format!("\"serde\":{},\"res\":{}", jbool(serde), jtext(&r)), true);
        r.ok()
    }
    pub fn parse_dur(&mut self, via: &str, s: &str) {
        let owned = s.to_string();
        let serde = via.starts_with("serde");
        let v = via.to_string();
        let r = with_deadline(DEADLINE_S, move || {
            if serde {
                serde_parse::<Duration>(&v, &owned)
            } else {
                Duration::from_str(&owned).map_err(|_| ())
            }
        });
        let res = match &r {
            Some(Ok(Ok(d))) => jdur(*d),
            Some(Ok(Err(_))) => "{\"err\":1}".to_string(),
            Some(Err(m)) => jpanic(m),
            None => "{\"hang\":true}".to_string(),
        };
        self.rec.ev("parse_dur", format!("\"via\":\"{}\",\"s\":{},\"res\":{}", via, jstr(s), res), true);
        if let Some(Ok(Ok(d))) = r {
            self.d = d;
        }
    }
    pub fn subdivision(&mut self, u: Unit) {
        let a = self.d;
        let r = catch(|| a.subdivision(u));
        let res = match r {
            Ok(Some(d)) => jdur(d),
            Ok(None) => "{\"none\":true}".to_string(),
            Err(m) => jpanic(&m),
        };
        self.rec.ev("subdivision", format!("\"u\":{},\"res\":{}", unit_idx(u), res), true);
    }
}

// ------------------------------------------------------------------ C09

pub fn c09(rec: &mut Rec, lm: &Landmarks, rng: &mut Rng, thorough: bool) {
    let _ = lm;
    let mut m = EM::new(rec);
    crate::p_epoch::c09_fields(&mut m, rng, thorough, false, true);
    // text forms and accessors on every enumerated day, rotating scale and time of day
    let d1900 = days_from_civil(1900, 1, 1);
    let forms = ["display", "debug", "lowerhex", "upperhex", "greg_str", "rfc3339", "iso8601", "isoformat", "lowerexp", "upperexp"];
    let mut k: usize = 0;
    for y in years(thorough) {
        let z0 = days_from_civil(y as i64, 1, 1) - d1900;
        let ndays = if is_leap(y) { 366 } else { 365 };
        for doy in 0..ndays {
            k += 1;
            // (every third day in the quick tier, every fifth of all 3.65 million days in the thorough tier, plus the
            // days around the ends of the year and around 28/29 February of every enumerated year; the fields of every
            // day are checked by c09_fields above - it is the text that is expensive to judge)
            if k % (if thorough { 5 } else { 3 }) != 0 && doy > 2 && doy < ndays - 2 && !(58..=61).contains(&doy) {
                continue;
            }
            let ts = SCALES[k % 9];
            // civil date y/doy in scale ts: elapsed = (day - reference day) * day - reference time of day
            let (gday, gtod): (i64, i128) = match ts {
                TimeScale::GPST | TimeScale::QZSST => (29_224, 0),
                TimeScale::GST => (36_392, 0),
                TimeScale::BDT => (38_716, 0),
                TimeScale::ET | TimeScale::TDB => (36_524, 43_200 * NS_S as i128),
                _ => (0, 0),
            };
            // (drawn, not derived from k: selectors that are all residues of k alias each other - `debug` was
            // only ever printed for the last nanosecond of a day, `{:e}` only for whole seconds)
            let tod: i128 = match rng.below(5) {
                0 => 0,
                1 => NS_DAY as i128 - 1,
                2 => rng.below(NS_DAY) as i128,
                3 => rng.below(86_400) as i128 * NS_S as i128,
                _ => (rng.below(24) as i128 * 3_600 * NS_S as i128 + rng.below(5) as i128 - 2).rem_euclid(NS_DAY as i128),
            };
            let v = ((z0 + doy - gday) as i128) * NS_DAY as i128 + tod - gtod;
            m.eload_dur(ts, ns_dur(v));
            m.fmt_epoch("display", ts);
            let f = *rng.pick(&forms);
            let dynamic = ts == TimeScale::ET || ts == TimeScale::TDB;
            match f {
                "lowerexp" | "upperexp" => {
                    // only for epochs already in that scale
                    if (f == "lowerexp" && ts == TimeScale::TDB) || (f == "upperexp" && ts == TimeScale::ET) {
                        m.fmt_epoch(f, ts);
                    }
                }
                "greg_str" => {
                    let to = if dynamic { ts } else { EXACT[k % 7] };
                    m.fmt_epoch(f, to);
                }
                "display" | "iso8601" | "isoformat" => {
                    m.fmt_epoch(f, ts);
                }
                _ => {
                    if !dynamic {
                        m.fmt_epoch(f, ts);
                    }
                }
            }
            if k % 4 == 0 {
                m.accessors();
                m.doy();
            }
        }
    }
    // sampled years out to +/- 30 000: fields and accessors (the text form is pinned for 0001-9999 only)
    for y in [-30000i64, -10000, -4713, -400, -1, 0, 10000, 12345, 30000] {
        for (mo, d) in [(1i64, 1i64), (2, 28), (3, 1), (12, 31)] {
            for ts in [TimeScale::TAI, TimeScale::UTC, TimeScale::GPST] {
                let gday: i64 = if ts == TimeScale::GPST { 29_224 } else { 0 };
                let v = ((days_from_civil(y, mo, d) - d1900 - gday) as i128) * NS_DAY as i128 + 45_296 * NS_S as i128 + 789;
                m.eload_dur(ts, ns_dur(v));
                if ts != TimeScale::GPST {
                    m.greg_round_trip(ts, 0);
                }
                m.accessors();
            }
        }
    }
    // random days of years -30 000 .. 30 000, with every year around zero: fields, and the epoch built from them
    let nr = if thorough { 40_000 } else { 1_500 };
    for i in 0..nr {
        let y: i64 = if i % 3 == 0 { rng.range_i64(-420, 20) } else { rng.range_i64(-30_000, 30_000) };
        let day = days_from_civil(y, 1, 1) - d1900 + rng.range_i64(0, 364);
        let ts = if i % 2 == 0 { TimeScale::TAI } else { TimeScale::UTC };
        let tod: i128 = match i % 3 {
            0 => 0,
            1 => NS_DAY as i128 - 1,
            _ => rng.below(NS_DAY) as i128,
        };
        m.eload_dur(ts, ns_dur(day as i128 * NS_DAY as i128 + tod));
        m.greg_round_trip(ts, (i % 3) as u8);
        if i % 4 == 0 {
            m.accessors();
            m.doy();
        }
    }
}

// ------------------------------------------------------------------ C10

/// elapsed time (ns) in scale `ts` of a random instant whose calendar year is 0001..9999
pub fn elapsed_4digit(rng: &mut Rng, ts: TimeScale) -> i128 {
    let d1900 = days_from_civil(1900, 1, 1);
    let lo = days_from_civil(1, 1, 2) - d1900;
    let hi = days_from_civil(9999, 12, 30) - d1900;
    let gday: i64 = match ts {
        TimeScale::GPST | TimeScale::QZSST => 29_224,
        TimeScale::GST => 36_392,
        TimeScale::BDT => 38_716,
        TimeScale::ET | TimeScale::TDB => 36_524,
        _ => 0,
    };
    let day = if rng.chance(1, 3) { rng.range_i64(-36_600, 73_000) } else { rng.range_i64(lo, hi) };
    let tod: i128 = match rng.below(5) {
        0 => 0,
        1 => NS_DAY as i128 - 1,
        2 => rng.below(86_400) as i128 * NS_S as i128,
        _ => rng.below(NS_DAY) as i128,
    };
    ((day - gday) as i128) * NS_DAY as i128 + tod
}

pub fn c10(rec: &mut Rec, lm: &Landmarks, rng: &mut Rng, thorough: bool) {
    let _ = lm;
    let mut m = EM::new(rec);
    // parse(format(e)) == e through every formatter / parser pair
    let n = if thorough { 120_000 } else { 5_000 };
    for i in 0..n {
        let ts = SCALES[i % 9];
        let v = elapsed_4digit(rng, ts);
        m.eload_dur(ts, ns_dur(v));
        let e0 = m.e;
        match i % 6 {
            0 => {
                if let Some(s) = m.fmt_epoch("display", ts) {
                    m.parse_epoch("from_str", &s);
                }
            }
            1 => {
                if let Some(s) = m.fmt_epoch("iso8601", ts) {
                    m.parse_epoch("from_str", &s);
                }
            }
            2 => {
                if let Some(s) = m.fmt_epoch("greg_str", ts) {
                    m.parse_epoch("greg_str", &s);
                }
            }
            3 => {
                // JSON: what Serialize writes, read back through every Deserialize entry point
                if let Some(s) = m.fmt_epoch("serde", ts) {
                    for via in SERDE_VIAS {
                        m.parse_epoch(via, &s);
                    }
                }
            }
            4 => {
                if ts == TimeScale::UTC || !(ts == TimeScale::ET || ts == TimeScale::TDB) {
                    m.to_scale(TimeScale::UTC);
                    if let Some(s) = m.fmt_epoch("rfc3339", TimeScale::UTC) {
                        m.parse_epoch("from_str", &s);
                    }
                }
            }
            _ => {
                if let Some(s) = m.fmt_epoch("display", ts) {
                    m.parse_epoch("greg_str", &s);
                }
            }
        }
        m.cmp(e0);
    }
    // the template space: separator x fractional digits x zone x scale suffix, field values landmark and random
    let seps = ['T', ' '];
    let suffixes = ["", " UTC", " TAI", " TT", " ET", " TDB", " GPST", " GST", " BDT", " QZSST", " GPS", " GAL", " BDS", " QZSS"];
    let mut count = 0usize;
    let reps = if thorough { 40 } else { 2 };
    for _ in 0..reps {
        for sep in seps {
            for nf in 0..=9usize {
                for zone in 0..3 {
                    for (si, suf) in suffixes.iter().enumerate() {
                        count += 1;
                        if zone == 1 && !suf.is_empty() {
                            continue; // no scale after 'Z'
                        }
                        if !thorough && (count % 3 != 0) {
                            continue;
                        }
                        let y = match rng.below(6) {
                            0 => 1,
                            1 => 9999,
                            2 => 1972,
                            _ => rng.range_i64(1, 9999),
                        } as i32;
                        let mo = 1 + rng.below(12) as u8;
                        let d = 1 + rng.below(dim(y, mo) as u64) as u8;
                        let (hh, mi, ss) = match rng.below(4) {
                            0 => (0, 0, 0),
                            1 => (23, 59, 59),
                            _ => (rng.below(24), rng.below(60), rng.below(60)),
                        };
                        let frac: String = (0..nf).map(|_| char::from(b'0' + rng.below(10) as u8)).collect();
                        let mut s = format!("{:04}-{:02}-{:02}{}{:02}:{:02}:{:02}", y, mo, d, sep, hh, mi, ss);
                        if nf > 0 {
                            s.push('.');
                            s.push_str(&frac);
                        }
                        match zone {
                            1 => s.push('Z'),
                            2 => {
                                let oh = match rng.below(4) {
                                    0 => 0,
                                    1 => 23,
                                    2 => 10 + rng.below(14),
                                    _ => rng.below(10),
                                };
                                let om = if rng.chance(1, 3) { 59 } else { rng.below(60) };
                                s.push_str(&format!("{}{:02}:{:02}", if rng.chance(1, 2) { '+' } else { '-' }, oh, om));
                            }
                            _ => {}
                        }
                        s.push_str(suf);
                        m.rec.episode();
                        m.parse_epoch(if (count + si) % 2 == 0 { "from_str" } else { "greg_str" }, &s);
                    }
                }
            }
        }
    }
    // well-formed but out of range, and the leap-second spellings
    for s in [
        "2020-13-01T00:00:00 UTC", "2020-00-10T00:00:00", "2021-02-29T00:00:00", "2020-02-30T00:00:00 TAI", "2020-04-31T12:00:00",
        "2020-01-01T25:00:00", "2020-01-01T24:00:00", "2020-01-01T00:60:00", "2020-01-01T00:00:61", "2020-01-01T00:00:60",
        "2016-12-31T23:59:60 UTC", "2016-12-31T23:59:60.5 UTC", "2015-06-30T23:59:60Z", "2017-06-30T23:59:60 UTC",
        "2020-01-00T00:00:00", "2020-01-32T00:00:00", "1900-02-29T00:00:00 TAI", "2000-02-29T00:00:00 TAI",
        "2022-01-01T00:00:00+24:00", "2022-01-01T00:00:00-00:60", "2022-01-01T00:00:00+10:00", "2022-01-01T00:00:00-12:30 TAI",
    ] {
        m.rec.episode();
        m.parse_epoch("from_str", s);
        m.rec.episode();
        m.parse_epoch("greg_str", s);
    }
}

// ------------------------------------------------------------------ C11

pub fn c11(rec: &mut Rec, lm: &Landmarks, rng: &mut Rng, thorough: bool) {
    let g = DurGen::new(lm);
    let mut m = DM::new(rec);
    let unit_ns: [i128; 7] = [1, 1_000, 1_000_000, NS_S as i128, 60 * NS_S as i128, 3_600 * NS_S as i128, NS_DAY as i128];
    // dense at (multiple of each unit) +/- {0, 1, 2, 999} ns, multiples up to the 10 000-year limit
    for (ui, u) in unit_ns.iter().enumerate() {
        let max_mult = (100 * NPC as i128) / u;
        let mults: Vec<i128> = vec![0, 1, 2, 23, 24, 59, 60, 999, 1000, 36_524, 36_525, 86_399, 86_400, max_mult / 3, max_mult - 1, max_mult];
        for &k in &mults {
            if k > max_mult {
                continue;
            }
            for dn in [-999i128, -2, -1, 0, 1, 2, 999] {
                for sign in [1i128, -1] {
                    let v = sign * (k * u + dn);
                    let (c, n) = ns_dur(v).to_parts();
                    m.load(c, n);
                    m.decompose();
                    if let Some(s) = m.fmt_dur(false) {
                        m.parse_dur("from_str", &s);
                        m.parts();
                    }
                    if (k + dn + ui as i128) % 5 == 0 {
                        if let Some(s) = m.fmt_dur(true) {
                            for via in SERDE_VIAS {
                                m.parse_dur(via, &s);
                            }
                        }
                        for su in UNITS {
                            m.subdivision(su);
                        }
                    }
                }
            }
        }
    }
    // one nanosecond short of a century, the bounds (outside the 10 000 y text range: decomposition only)
    for (c, n) in [(0i16, NPC - 1), (1, 0), (-1, 0), (-1, 1), (99, NPC - 1), (-100, 0), (32767, NPC), (-32768, 0), (-32768, 1)] {
        m.load(c, n);
        m.decompose();
        if (-100..100).contains(&c) {
            if let Some(s) = m.fmt_dur(false) {
                m.parse_dur("from_str", &s);
            }
        }
    }
    // random within +/- 10 000 years
    let n = if thorough { 150_000 } else { 6_000 };
    for i in 0..n {
        let span = 100 * NPC as i128;
        let v = match rng.below(4) {
            0 => rng.log_i128(68).clamp(-span, span),
            1 => (rng.i128().rem_euclid(2 * span)) - span,
            2 => (rng.below(4_000_000) as i128 - 2_000_000) * NS_DAY as i128 + rng.below(NS_DAY) as i128,
            _ => rng.below(200_000) as i128 * *rng.pick(&unit_ns) + rng.below(3) as i128 - 1,
        };
        let (c, nn) = ns_dur(v).to_parts();
        m.load(c, nn);
        m.decompose();
        if let Some(s) = m.fmt_dur(i % 7 == 0) {
            m.parse_dur(if i % 7 == 0 { SERDE_VIAS[(i / 7) % 5] } else { "from_str" }, &s);
            m.parts();
        }
    }
    let _ = g;
    // every spelling of the unit table, integer and fractional values
    let spell: [&str; 25] = [
        "d", "days", "day", "h", "hours", "hour", "hr", "min", "mins", "minute", "minutes", "s", "second", "seconds", "sec", "ms",
        "millisecond", "milliseconds", "μs", "us", "microsecond", "microseconds", "ns", "nanosecond", "nanoseconds",
    ];
    let vals = ["0", "1", "2", "10", "1.5", "10.598", "0.1", "0.3", "123456.789", "999", "1000", "0.000001", "5", "36525", "2.5", "7.25", "59.999999999"];
    for sp in spell {
        for v in vals {
            m.rec.episode();
            m.parse_dur("from_str", &format!("{v} {sp}"));
            m.rec.episode();
            m.parse_dur("from_str", &format!("-{v} {sp}"));
        }
    }
    // signed sentences of every byte length from 3 to 12 (an offset is recognised by its length): one to six digits,
    // short fractions, every spelling
    for sp in spell {
        for v in ["3", "36", "360", "3600", "36000", "360000", "1.5", "12.5", "12.25", "123.5", "1200", "0015"] {
            for sign in ["-", "+"] {
                m.rec.episode();
                m.parse_dur("from_str", &format!("{sign}{v} {sp}"));
            }
        }
    }
    // several units in one sentence
    let order = ["days", "h", "min", "s", "ms", "us", "ns"];
    let nm = if thorough { 20_000 } else { 1_500 };
    for _ in 0..nm {
        let mut s = String::new();
        if rng.chance(1, 3) {
            s.push('-');
        }
        let mut first = true;
        for u in order {
            if rng.chance(1, 2) {
                if !first {
                    s.push(' ');
                }
                first = false;
                let v = match rng.below(4) {
                    0 => format!("{}", rng.below(1000)),
                    1 => format!("{}.{}", rng.below(100), rng.below(1000)),
                    2 => format!("{}", rng.below(100_000)),
                    _ => format!("{}.{:03}", rng.below(10), rng.below(1000)),
                };
                let sp = match u {
                    "days" => *rng.pick(&["d", "days", "day"]),
                    "h" => *rng.pick(&["h", "hours", "hour", "hr"]),
                    "min" => *rng.pick(&["min", "mins", "minute", "minutes"]),
                    "s" => *rng.pick(&["s", "second", "seconds", "sec"]),
                    "ms" => *rng.pick(&["ms", "millisecond", "milliseconds"]),
                    "us" => *rng.pick(&["μs", "us", "microsecond", "microseconds"]),
                    _ => *rng.pick(&["ns", "nanosecond", "nanoseconds"]),
                };
                s.push_str(&format!("{v} {sp}"));
            }
        }
        if !first {
            m.rec.episode();
            m.parse_dur("from_str", &s);
        }
    }
    // offsets [+-]HH:MM[:SS] and [+-]HHMM[SS]
    for sign in ['+', '-'] {
        for (h, mi, s) in [(0u32, 0u32, 0u32), (1, 15, 30), (23, 59, 59), (36, 15, 0), (5, 0, 0), (12, 30, 0), (99, 99, 99), (10, 0, 0)] {
            for form in 0..4 {
                let t = match form {
                    0 => format!("{sign}{h:02}:{mi:02}"),
                    1 => format!("{sign}{h:02}:{mi:02}:{s:02}"),
                    2 => format!("{sign}{h:02}{mi:02}"),
                    _ => format!("{sign}{h:02}{mi:02}{s:02}"),
                };
                m.rec.episode();
                m.parse_dur("from_str", &t);
            }
        }
    }
    for sign in ['+', '-'] {
        for h in [0u32, 1, 9, 10, 11, 19, 20, 23, 24, 99] {
            for mi in [0u32, 1, 30, 59, 60, 99] {
                for s in [0u32, 1, 59, 60] {
                    if !thorough && (h + mi + s) % 3 == 1 && h != 0 {
                        continue;
                    }
                    for form in 0..4 {
                        let t = match form {
                            0 => format!("{sign}{h:02}:{mi:02}"),
                            1 => format!("{sign}{h:02}:{mi:02}:{s:02}"),
                            2 => format!("{sign}{h:02}{mi:02}"),
                            _ => format!("{sign}{h:02}{mi:02}{s:02}"),
                        };
                        m.rec.episode();
                        m.parse_dur("from_str", &t);
                    }
                }
            }
        }
    }
    // Epoch::hours() ... expose the decomposition of the elapsed time
    {
        let mut em = EM::new(m.rec);
        for i in 0..(if thorough { 20_000 } else { 1_000 }) {
            let ts = SCALES[i % 9];
            em.eload_dur(ts, ns_dur(elapsed_4digit(rng, ts)));
            em.epoch_hms();
        }
    }
}

// ------------------------------------------------------------------ C13

fn total_ev(rec: &mut Rec, what: &str, s: &str, fmt: Option<&str>, r: Option<Result<bool, String>>) {
    let res = match r {
        Some(Ok(true)) => "{\"ok\":1}".to_string(),
        Some(Ok(false)) => "{\"err\":1}".to_string(),
        Some(Err(m)) => jpanic(&m),
        None => "{\"hang\":true}".to_string(),
    };
    let f = match fmt {
        Some(f) => format!(",\"fmt\":{}", jstr(f)),
        None => String::new(),
    };
    rec.episode();
    rec.ev("totality", format!("\"what\":\"{}\",\"s\":{}{},\"res\":{}", what, jstr(s), f, res), true);
}

pub fn try_all_parsers(m: &mut EM, s: &str, fmts: &[&str], k: usize) {
    m.rec.episode();
    m.parse_epoch("from_str", s);
    m.rec.episode();
    m.parse_epoch("greg_str", s);
    {
        let o = s.to_string();
        let r = with_deadline(DEADLINE_S, move || Duration::from_str(&o).is_ok());
        total_ev(m.rec, "dur", s, None, r);
    }
    {
        let o = s.to_string();
        let r = with_deadline(DEADLINE_S, move || Format::from_str(&o).is_ok());
        total_ev(m.rec, "fmtstr", s, None, r);
    }
    if k % 4 == 0 {
        let o = s.to_string();
        let r = with_deadline(DEADLINE_S, move || TimeScale::from_str(&o).is_ok());
        total_ev(m.rec, "scale", s, None, r);
        let o = s.to_string();
        let r = with_deadline(DEADLINE_S, move || Weekday::from_str(&o).is_ok());
        total_ev(m.rec, "weekday", s, None, r);
        let o = s.to_string();
        let r = with_deadline(DEADLINE_S, move || MonthName::from_str(&o).is_ok());
        total_ev(m.rec, "month", s, None, r);
    }
    // parse with a format: as the input of every sample format, and as the format of a sample input
    let f = fmts[k % fmts.len()];
    {
        let o = s.to_string();
        let ff = f.to_string();
        let r = with_deadline(DEADLINE_S, move || Epoch::from_format_str(&o, &ff).is_ok());
        total_ev(m.rec, "format_str", s, Some(f), r);
    }
    {
        let o = s.to_string();
        let r = with_deadline(DEADLINE_S, move || Epoch::from_format_str("2023-04-27T12:55:26.000000001 UTC", &o).is_ok());
        total_ev(m.rec, "as_format", "2023-04-27T12:55:26.000000001 UTC", Some(s), r);
    }
    if k % 3 == 0 {
        let o = s.to_string();
        let r = with_deadline(DEADLINE_S, move || {
            Epoch::from_str_with_format(&o, [consts::ISO8601, consts::RFC3339, consts::RFC2822, consts::ISO8601_ORDINAL, consts::RFC2822_LONG, consts::ISO8601_FLEX][k % 6]).is_ok()
        });
        total_ev(m.rec, "with_format", s, None, r);
    }
}

/// representatives of the character classes used for mutation
pub const CLASS_REPS: [&str; 26] = [
    "0", "9", "-", ":", ".", "T", " ", "Z", "+", "a", "%", "é", "€", "𝄞", "٣", "１", "\u{0}", "\t", "?", "e", "μ", "Y",
    // white space of two and three bytes (char::is_whitespace is true for them, and str::trim removes them)
    "\u{a0}", "\u{85}", "\u{2003}", "\u{3000}",
];
pub const WIDE_BLANKS: [char; 5] = ['\u{a0}', '\u{85}', '\u{2003}', '\u{3000}', '\u{2028}'];

pub fn mutate(rng: &mut Rng, s: &str) -> String {
    let chars: Vec<char> = s.chars().collect();
    let n = chars.len();
    let mut out: Vec<char> = chars.clone();
    match rng.below(6) {
        0 if n > 0 => {
            out.remove(rng.below(n as u64) as usize);
        }
        1 => {
            let rep: Vec<char> = rng.pick(&CLASS_REPS).chars().collect();
            let p = rng.below(n as u64 + 1) as usize;
            for (i, c) in rep.iter().enumerate() {
                out.insert(p + i, *c);
            }
        }
        2 if n > 0 => {
            let rep: Vec<char> = rng.pick(&CLASS_REPS).chars().collect();
            let p = rng.below(n as u64) as usize;
            out[p] = rep[0];
        }
        3 => {
            out.truncate(rng.below(n as u64 + 1) as usize);
        }
        4 if n > 0 => {
            // a long digit run / huge number, in place of one of the digit runs of the string (or inserted)
            let len = *rng.pick(&[9usize, 10, 11, 19, 20, 39]);
            let run: Vec<char> = match rng.below(8) {
                0 => "9".repeat(len).chars().collect(),
                1 => "0".repeat(len).chars().collect(),
                2 => format!("{}5", "0".repeat(len - 1)).chars().collect(),
                3 => format!("1{}", "0".repeat(len - 1)).chars().collect(),
                4 => "2147483648".chars().collect(),
                5 => "1e999".chars().collect(),
                6 => "2147483647".chars().collect(),
                _ => "4294967296".chars().collect(),
            };
            // the digit runs of the string: (start, end)
            let mut runs: Vec<(usize, usize)> = Vec::new();
            let mut i = 0;
            while i < n {
                if chars[i].is_ascii_digit() {
                    let st = i;
                    while i < n && chars[i].is_ascii_digit() {
                        i += 1;
                    }
                    runs.push((st, i));
                } else {
                    i += 1;
                }
            }
            if !runs.is_empty() && rng.chance(3, 4) {
                let (st, en) = *rng.pick(&runs);
                out.splice(st..en, run.into_iter());
            } else {
                let p = rng.below(n as u64) as usize;
                for (i, c) in run.iter().enumerate() {
                    out.insert(p + i, *c);
                }
            }
        }
        _ if n > 1 => {
            let a = rng.below(n as u64) as usize;
            let b = rng.below(n as u64) as usize;
            out.swap(a, b);
        }
        _ => {}
    }
    out.into_iter().collect()
}

pub fn c13(rec: &mut Rec, lm: &Landmarks, rng: &mut Rng, thorough: bool) {
    let _ = lm;
    let mut m = EM::new(rec);
    let skeletons: Vec<&str> = vec![
        "2017-01-14T00:31:55 UTC", "2017-01-14 00:31:55", "2017-01-14T00:31:55.811200000 TAI", "1994-11-05T08:15:30-05:00", "1994-11-05T13:15:30Z",
        "2022-09-06T23:24:29.000000002 GPST", "JD 2452312.500372511 TDB", "MJD 51544.5 TAI", "SEC 66312032.18493909 TDB", "SEC 0.5 TAI", "JD 2452312.5 UTC",
        "1 d", "10.598 days", "5 h 256 ms 1 ns", "-01:15:30", "+3615", "-5 h 256 ms 1 ns", "1 day 99 ns", "36525 days 1 min 39 s", "12 μs",
        "%Y-%m-%dT%H:%M:%S.%f %T", "%Y-%m-%d", "%a, %d %b %Y %H:%M:%S", "%Y-%j", "%A, %d %B %Y %H:%M:%S", "%Y-%m-%dT%H:%M:%S.%f%z", "%w %Y", "%y-%m-%d",
        "Tue, 29 Feb 2000 14:57:29", "Tuesday, 29 February 2000 14:57:29", "2000-060", "2023-117T12:55:26", "UTC", "QZSST", "Monday", "sun", "February", "dec",
        "", " ", "2020", "0000-00-00T00:00:00", "9999-12-31T23:59:59.999999999 QZSST", "2020-02-30T00:00:00", "2020-13-01T00:00:00", "2020-01-01T25:00:00",
        "2020-01-01T00:60:00", "JD NaN TAI", "SEC inf TAI", "MJD -inf UTC", "SEC 1e400 TT", "JD 123 €a", "éééé", "-€", "SEC 12.5 GPST", "2020-01-01T00:00:00.1234567891 UTC",
        "2020-01-01T00:00:00.0000000005 UTC", "2020-01-01T00:00:00.0000000000 UTC", "2020-01-01T00:00:00.00000000000000000001", "2020-01-01T00:00:00.000000000",
        "2020-01-01T00:00:00.9999999999Z", "2020-01-01T00:00:00.0000000001+01:00",
        "%Y%Y%Y%Y%Y%Y%Y%Y%Y%Y%Y%Y%Y%Y%Y%Y", "%Y%Y%Y%Y%Y%Y%Y%Y%Y%Y%Y%Y%Y%Y%Y%Y%Y", "03 2020", "2147483647-01-01", "99999999999-01-01T00:00:00", "2147483647-12-31T23:59:00", "2147483647-12-31T23:59:60 TAI", "2147483647-06-30T23:59:60",
        "-2147483648-12-31T23:59:59", "2147483646-12-31T23:59:59 UTC", "5885416-12-31T23:59:59", "5885417-01-01T00:00:00",
        // well-formed, out of range: every field at its first invalid value
        "2017-01-14T00:31:55+01:60", "2017-01-14T00:31:55-24:00", "2017-01-14T00:31:55+23:59", "2017-01-14T24:31:55", "2017-01-14T00:31:55.5+00:60 TAI",
        "2017-00-14T00:31:55", "2017-01-00T00:31:55", "2017-01-32T00:31:55", "2017-06-31T00:31:55", "2019-02-29T00:31:55 TT", "2100-02-29T00:00:00",
        "2017-01-14T00:60:55", "2017-01-14T00:31:61", "2017-01-14T12:31:60", "2016-12-30T23:59:60", "2015-12-31T23:59:60 UTC", "2016-06-30T23:59:60",
    ];
    let fmts: Vec<&str> = vec![
        "%Y-%m-%dT%H:%M:%S.%f %T", "%Y-%m-%d", "%a, %d %b %Y %H:%M:%S", "%Y-%j", "%A, %d %B %Y %H:%M:%S", "%Y-%m-%dT%H:%M:%S.%f%z", "%w %Y", "%y-%m-%d",
        "%Y-%jT%H:%M:%S", "%J %Y", "%Y %m %d %H %M %S %f %T %z %j %A %a %B %b %y %w", "%T", "%z", "%f", "%S?", "%Y%m%d",
    ];
    let mut k = 0usize;
    for s in &skeletons {
        k += 1;
        try_all_parsers(&mut m, s, &fmts, k * 12); // k*12: every branch of the selection above
    }
    // every blank of every skeleton replaced by white space of two and three bytes, and such a blank put before and
    // after the sentence (a parser that finds the blank with is_whitespace must not assume it is one byte wide)
    for s in &skeletons {
        let cs: Vec<char> = s.chars().collect();
        for (wi, wb) in WIDE_BLANKS.iter().enumerate() {
            let mut variants: Vec<String> = Vec::new();
            for (i, c) in cs.iter().enumerate() {
                if *c == ' ' {
                    let mut v = cs.clone();
                    v[i] = *wb;
                    variants.push(v.into_iter().collect());
                }
            }
            if wi < 2 && !cs.is_empty() {
                variants.push(format!("{wb}{s}"));
                variants.push(format!("{s}{wb}"));
            }
            for t in variants {
                k += 1;
                try_all_parsers(&mut m, &t, &fmts, k * 12);
            }
        }
    }
    // (format, input) pairs that reach the error arms of Format::parse which no rendered text reaches: a word that
    // is no month / weekday name, digits where a name or a time scale is expected, a name where digits are, an
    // offset without minutes, with letters, with a second colon; each pair and its mutations
    let pairs: [(&str, &str); 22] = [
        ("%d %B %Y", "12 Foo 2020"), ("%d %b %Y", "12 Jux 2020"), ("%A %d %B %Y", "Noday 12 March 2020"), ("%a %Y-%m-%d", "Xyz 2020-03-12"),
        ("%Y %T", "2020 123"), ("%Y-%m-%d %T", "2020-03-12 12"), ("%B %Y", "12 2020"), ("%Y-%m-%d", "2020-March-12"), ("%j %Y", "abc 2020"),
        ("%Y-%m-%dT%H:%M:%S%z", "2020-03-12T01:02:03+01"), ("%Y-%m-%dT%H:%M:%S%z", "2020-03-12T01:02:03+ab:cd"), ("%Y-%m-%dT%H:%M:%S%z", "2020-03-12T01:02:03+01:02:03"),
        ("%Y-%m-%dT%H:%M:%S%z", "2020-03-12T01:02:03-24:00"), ("%Y-%m-%dT%H:%M:%S%z", "2020-03-12T01:02:03+01:60"), ("%Y-%m-%dT%H:%M:%S %z %T", "2020-03-12T01:02:03 -01:30 TAI"),
        ("%Y-%m-%dT%H:%M:%S%z", "2020-03-12T01:02:03+:"), ("%Y-%m-%dT%H:%M:%S%z", "2020-03-12T01:02:03-"), ("%z", "+01:00"), ("%z %Y", "-01:00 2020"),
        ("%w %Y", "3 2020"), ("%y %j", "20 072"), ("%Y %J", "2020 72.5"),
    ];
    for (f, inp) in pairs {
        for rep in 0..(if thorough { 40 } else { 4 }) {
            let mut t = inp.to_string();
            for _ in 0..(rep % 3) {
                t = mutate(rng, &t);
            }
            let o = t.clone();
            let ff = f.to_string();
            let r = with_deadline(DEADLINE_S, move || Epoch::from_format_str(&o, &ff).is_ok());
            total_ev(m.rec, "format_str", &t, Some(f), r);
        }
    }
    // all-numeric formats x (date, time of day) grids around the sixtieth second and the ends of the ranges: a sentence
    // whose time of day does not exist on that date (second 60 anywhere but at 23:59 of a day that ends in an inserted
    // second) must be an error, whatever the order of the tokens and whether the date is a day of the month or of the year
    {
        let nfmts = ["%Y-%m-%dT%H:%M:%S", "%Y-%jT%H:%M:%S", "%j %Y %H:%M:%S", "%H:%M:%S %Y-%j", "%Y-%m-%d %H:%M:%S.%f", "%S:%M:%H %d/%m/%Y", "%Y/%j %S.%M.%H", "%Y-%j %H:%M"];
        // (the last four: a day of year that the year does not have - only the formats with %j see it)
        let dates: [(i32, u8, u8, u16); 11] = [(2023, 4, 10, 100), (2016, 12, 31, 366), (2016, 12, 30, 365), (2015, 6, 30, 181), (2017, 1, 1, 1), (1971, 12, 31, 365), (2023, 12, 31, 365),
            (2023, 12, 31, 366), (2100, 12, 31, 366), (2023, 1, 1, 0), (2024, 12, 31, 367)];
        let times: [(u8, u8, u8); 9] = [(12, 0, 60), (23, 59, 60), (0, 0, 60), (23, 59, 59), (23, 58, 60), (24, 0, 0), (23, 60, 0), (23, 59, 61), (0, 59, 60)];
        for f in nfmts {
            for (y, mo, d, j) in dates {
                for (hh, mi, ss) in times {
                    let t = f
                        .replace("%Y", &format!("{y:04}"))
                        .replace("%m", &format!("{mo:02}"))
                        .replace("%d", &format!("{d:02}"))
                        .replace("%j", &format!("{j:03}"))
                        .replace("%H", &format!("{hh:02}"))
                        .replace("%M", &format!("{mi:02}"))
                        .replace("%S", &format!("{ss:02}"))
                        .replace("%f", "000000000");
                    m.rec.episode(); // the judgement of a sentence does not depend on the register
                    fmt_parse_ev(&mut m, f, &t);
                }
            }
        }
    }
    // single and double mutations of every skeleton
    let rounds = if thorough { 400 } else { 22 };
    for _ in 0..rounds {
        for s in &skeletons {
            k += 1;
            let mut t = mutate(rng, s);
            if rng.chance(1, 3) {
                t = mutate(rng, &t);
            }
            try_all_parsers(&mut m, &t, &fmts, k);
        }
    }
    // rendered with one format, parsed with another; truncated
    let n = if thorough { 20_000 } else { 800 };
    for i in 0..n {
        let ts = SCALES[i % 9];
        let e = Epoch::from_duration(ns_dur(elapsed_4digit(rng, ts)), ts);
        let f1 = fmts[i % fmts.len()];
        let f2 = fmts[(i / 3 + 5) % fmts.len()];
        let rendered = catch(|| Format::from_str(f1).map(|f| format!("{}", Formatter::new(e, f))).unwrap_or_default()).unwrap_or_default();
        let mut s = rendered.clone();
        if rng.chance(1, 2) {
            let cut = rng.below(s.chars().count() as u64 + 1) as usize;
            s = s.chars().take(cut).collect();
        }
        let o = s.clone();
        let ff = f2.to_string();
        let r = with_deadline(DEADLINE_S, move || Epoch::from_format_str(&o, &ff).is_ok());
        total_ev(m.rec, "format_str", &s, Some(f2), r);
    }
    // formats at and next to the maximum number of tokens, parsed against inputs that run through every
    // field and then continue (separator, more text)
    let num_toks = ["%d", "%m", "%H", "%M", "%S", "%Y", "%j", "%f"];
    for ntok in [14usize, 15, 16, 17] {
        for rep in 0..(if thorough { 40 } else { 6 }) {
            let mut f = String::new();
            for i in 0..ntok {
                f.push_str(if rep == 0 { "%d" } else { *rng.pick(&num_toks) });
                f.push_str(if i + 1 < ntok || rep % 2 == 0 { *rng.pick(&[" ", "-", ":", ", "]) } else { "" });
            }
            let e = Epoch::from_duration(ns_dur(elapsed_4digit(rng, TimeScale::UTC)), TimeScale::UTC);
            let ff = f.clone();
            let rendered = catch(move || Format::from_str(&ff).map(|x| format!("{}", Formatter::new(e, x))).unwrap_or_default()).unwrap_or_default();
            let base = if rendered.is_empty() { "01 ".repeat(ntok) } else { rendered };
            for tail in ["", " ", " UTC", " 01", "x", "-01 ", " 01 02 03"] {
                let s = format!("{base}{tail}");
                let o = s.clone();
                let ff = f.clone();
                let r = with_deadline(DEADLINE_S, move || Epoch::from_format_str(&o, &ff).is_ok());
                total_ev(m.rec, "format_str", &s, Some(&f), r);
            }
        }
    }
    // all-numeric formats: well-formed sentences with every field valid, or one field at / past its limit
    let numfmts = ["%Y-%m-%dT%H:%M:%S", "%Y-%jT%H:%M:%S", "%H:%M:%S %d/%m/%Y", "%Y %j", "%d.%m.%Y %H:%M", "%Y-%m-%d", "%Y/%m/%d %H:%M:%S.%f", "%j-%Y %M:%S",
        "%Y-%m-%dT%H:%M:%S%z", "%Y-%m-%d %H:%M:%S %z", "%d/%m/%Y %H:%M%z"];
    for (fi, f) in numfmts.iter().enumerate() {
        for rep in 0..(if thorough { 400 } else { 40 }) {
            // field values: valid, then one of them replaced by a boundary value
            let mut y = rng.range_i64(1, 9999);
            let mut mo = 1 + rng.below(12) as i64;
            let mut d = 1 + rng.below(28) as i64;
            let (mut hh, mut mi, mut ss, mut j) = (rng.below(24) as i64, rng.below(60) as i64, rng.below(60) as i64, 1 + rng.below(365) as i64);
            match rep % 12 {
                1 => mo = *rng.pick(&[0i64, 13, 12, 1, 99]),
                2 => d = *rng.pick(&[0i64, 31, 32, 30, 29]),
                3 => hh = *rng.pick(&[23i64, 24, 25, 99]),
                4 => mi = *rng.pick(&[59i64, 60, 61]),
                5 => ss = *rng.pick(&[59i64, 60, 61, 99]),
                6 => j = *rng.pick(&[0i64, 1, 365, 366, 367, 999]),
                7 => {
                    mo = 2;
                    d = *rng.pick(&[28i64, 29, 30]);
                    y = *rng.pick(&[1900i64, 2000, 2019, 2020, 2100]);
                }
                8 => {
                    mo = *rng.pick(&[4i64, 6, 9, 11]);
                    d = 31;
                }
                _ => {}
            }
            // the offset of a format that ends in %z: valid, or its hours / minutes at or past their limit
            let (mut oh, mut om) = (rng.below(24) as i64, rng.below(60) as i64);
            match rep % 5 {
                1 => oh = *rng.pick(&[23i64, 24, 25, 30, 59, 60, 99]),
                2 => om = *rng.pick(&[59i64, 60, 61, 99]),
                _ => {}
            }
            let f_z = f.replace("%z", &format!("{}{oh:02}:{om:02}", if rep % 2 == 0 { '+' } else { '-' }));
            let s = f_z
                .replace("%Y", &format!("{y:04}"))
                .replace("%m", &format!("{mo:02}"))
                .replace("%d", &format!("{d:02}"))
                .replace("%H", &format!("{hh:02}"))
                .replace("%M", &format!("{mi:02}"))
                .replace("%S", &format!("{ss:02}"))
                .replace("%f", &format!("{:09}", rng.below(1_000_000_000)))
                .replace("%j", &format!("{j:03}"));
            m.rec.episode();
            let o = s.clone();
            let ff = f.to_string();
            let r = with_deadline(DEADLINE_S, move || Epoch::from_format_str(&o, &ff).map_err(|_| ()));
            m.rec.ev("fmt_parse", format!("\"fmt\":{},\"s\":{},\"res\":{}", jstr(f), jstr(&s), jparsed_epoch(&r)), true);
            let _ = fi;
        }
    }
    // random strings
    let n = if thorough { 60_000 } else { 2_500 };
    for _ in 0..n {
        k += 1;
        let cap = if rng.chance(1, 10) { 64 } else { 24 };
        let len = rng.below(cap) as usize;
        let mut s = String::new();
        for _ in 0..len {
            s.push_str(*rng.pick(&CLASS_REPS));
        }
        try_all_parsers(&mut m, &s, &fmts, k);
    }
    // scale names: exact judgement
    for s in ["UTC", "TT", "TAI", "TDB", "ET", "GPST", "GPS", "GST", "GAL", "BDT", "BDS", "QZSST", "QZSS", " UTC ", "utc", "TAI2", "", "UT", "GPSTT"] {
        m.rec.episode();
        let o = s.to_string();
        let r = catch(move || TimeScale::from_str(&o).map(|t| u8::from(t)).map_err(|_| ()));
        let res = match r {
            Ok(Ok(t)) => format!("{{\"v\":{t}}}"),
            Ok(Err(_)) => "{\"err\":1}".to_string(),
            Err(p) => jpanic(&p),
        };
        m.rec.ev("parse_scale", format!("\"s\":{},\"res\":{}", jstr(s), res), true);
    }
}

// ------------------------------------------------------------------ C19

pub const TOKS: [&str; 14] = ["%Y", "%m", "%d", "%H", "%M", "%S", "%f", "%j", "%A", "%a", "%B", "%b", "%T", "%z"];
pub const SEPS: [&str; 11] = ["", "-", ":", " ", ", ", "T", ".", "/", "--", "Z", "_Z"];

fn render_ev(m: &mut EM, fmt: &str, how: u8, off: Duration, to: TimeScale) -> Option<String> {
    let a = m.e;
    let f = fmt.to_string();
    let r: Result<Option<String>, String> = catch(|| {
        let fm = match Format::from_str(&f) {
            Ok(x) => x,
            Err(_) => return None,
        };
        Some(match how {
            0 => format!("{}", Formatter::new(a, fm)),
            1 => format!("{}", Formatter::with_timezone(a, off, fm)),
            3 => {
                // new + set_timezone: the offset is recorded for %z, the epoch shown is not shifted
                let mut x = Formatter::new(a, fm);
                x.set_timezone(off);
                format!("{}", x)
            }
            _ => format!("{}", Formatter::to_time_scale(a, fm, to)),
        })
    });
    let (res, out) = match r {
        Ok(Some(s)) => (format!("{{\"v\":{}}}", jstr(&s)), Some(s)),
        Ok(None) => ("{\"err\":1}".to_string(), None),
        Err(p) => (jpanic(&p), None),
    };
    let shown = if how == 2 { to } else { a.time_scale };
    m.rec.ev(
        "render",
        format!("\"fmt\":{},\"how\":{},\"off\":{},\"to\":{},\"res\":{}", jstr(fmt), how, jdur(if how == 1 || how == 3 { off } else { Duration::ZERO }), ts_idx(shown), res),
        true,
    );
    out
}

fn fmt_parse_ev(m: &mut EM, fmt: &str, s: &str) {
    fmt_parse_off_ev(m, fmt, s, Duration::ZERO);
}

/// parse `s` with format `fmt`; `off` is the time zone offset `s` was rendered with (zero if none)
fn fmt_parse_off_ev(m: &mut EM, fmt: &str, s: &str, off: Duration) {
    let o = s.to_string();
    let ff = fmt.to_string();
    let r = with_deadline(DEADLINE_S, move || Epoch::from_format_str(&o, &ff).map_err(|_| ()));
    m.rec.ev("fmt_parse", format!("\"fmt\":{},\"s\":{},\"off\":{},\"res\":{}", jstr(fmt), jstr(s), jdur(off), jparsed_epoch(&r)), true);
}

pub fn c19(rec: &mut Rec, lm: &Landmarks, rng: &mut Rng, thorough: bool) {
    let _ = lm;
    let mut m = EM::new(rec);
    // the predefined constants are the formats their documentation states
    let named: [(&str, Format, &str); 8] = [
        ("ISO8601", consts::ISO8601, "%Y-%m-%dT%H:%M:%S.%f %T"),
        ("ISO8601_FLEX", consts::ISO8601_FLEX, "%Y-%m-%dT%H:%M:%S.%f? %T?"),
        ("ISO8601_DATE", consts::ISO8601_DATE, "%Y-%m-%d"),
        ("ISO8601_ORDINAL", consts::ISO8601_ORDINAL, "%Y-%j"),
        ("RFC2822", consts::RFC2822, "%a, %d %b %Y %H:%M:%S"),
        ("RFC2822_LONG", consts::RFC2822_LONG, "%A, %d %B %Y %H:%M:%S"),
        ("RFC3339", consts::RFC3339, "%Y-%m-%dT%H:%M:%S.%f%z"),
        ("RFC3339_FLEX", consts::RFC3339_FLEX, "%Y-%m-%dT%H:%M:%S.%f?%z"),
    ];
    for (name, c, doc) in named.iter() {
        m.rec.episode();
        let r = catch(|| Format::from_str(doc).map(|f| f == *c).unwrap_or(false));
        let res = match r {
            Ok(b) => format!("{{\"v\":{}}}", jbool(b)),
            Err(p) => jpanic(&p),
        };
        m.rec.ev("const_eq", format!("\"name\":\"{}\",\"doc\":{},\"res\":{}", name, jstr(doc), res), true);
    }
    let n = if thorough { 30_000 } else { 1_200 };
    for i in 0..n {
        let ts = SCALES[i % 9];
        // sub-second part: none, a landmark (a whole number of milli- or microseconds, one nanosecond, one short of a
        // second: an optional %f is omitted only when all nine digits are zero), or random
        let v = match i % 5 {
            0 => (elapsed_4digit(rng, ts) / NS_S as i128) * NS_S as i128,
            1 | 2 => {
                let sub = [500_000_000i128, 123_456_000, 1_000, 999_999_000, 1, 100_000_000, 999_999_999, 250_000_000, 1_000_000, 10][(i / 5) % 10];
                (elapsed_4digit(rng, ts).div_euclid(NS_S as i128)) * NS_S as i128 + sub
            }
            _ => elapsed_4digit(rng, ts),
        };
        m.eload_dur(ts, ns_dur(v));
        let (name, c, _) = named[(i + i / 40) % 8];
        let a = m.e;
        let off = if i % 3 == 0 { ns_dur((rng.below(2 * 1439 + 1) as i128 - 1439) * 60 * NS_S as i128) } else { Duration::ZERO };
        let r = if i % 3 == 0 { catch(|| format!("{}", Formatter::with_timezone(a, off, c))) } else { catch(|| format!("{}", Formatter::new(a, c))) };
        m.rec.ev("render_const", format!("\"name\":\"{}\",\"off\":{},\"res\":{}", name, jdur(off), jtext(&r)), true);
        if name == "ISO8601" && i % 3 != 0 {
            // the ISO 8601 formatter output is compared with the default display
            let iso = catch(|| format!("{}", Formatter::new(a, consts::ISO8601)));
            let disp = catch(|| format!("{a}"));
            m.rec.ev("iso_vs_display", format!("\"iso\":{},\"disp\":{},\"res\":{{\"v\":1}}", jtext(&iso), jtext(&disp)), true);
        }
    }
    // all formats of 1..3 tokens with a separator after each but the last (exhaustive), rendered on sample epochs
    let mut formats: Vec<String> = Vec::new();
    for a in TOKS {
        formats.push(a.to_string());
        for s1 in SEPS {
            for b in TOKS {
                formats.push(format!("{a}{s1}{b}"));
            }
        }
    }
    // the tokens that are rendered but not judged (%J fractional day of year, %w weekday number, %y short year),
    // alone (the formatter's path without calendar fields) and next to calendar tokens
    for f in ["%J", "%w", "%y", "%J %w", "%w %A", "%T %J", "%z %w", "%Y %J", "%Y-%m-%d %w", "%y-%m-%d", "%y%j", "%A %w %a"] {
        formats.push(f.to_string());
    }
    if thorough {
        for a in TOKS {
            for s1 in ["", "-", " ", ", "] {
                for b in TOKS {
                    for s2 in ["", ":", " ", "T"] {
                        for c in TOKS {
                            formats.push(format!("{a}{s1}{b}{s2}{c}"));
                        }
                    }
                }
            }
        }
    } else {
        for _ in 0..1500 {
            formats.push(format!("{}{}{}{}{}", rng.pick(&TOKS), rng.pick(&SEPS), rng.pick(&TOKS), rng.pick(&SEPS), rng.pick(&TOKS)));
        }
    }
    // longer formats, up to 16 tokens
    let nl = if thorough { 20_000 } else { 1_000 };
    for _ in 0..nl {
        let len = 4 + rng.below(13) as usize;
        let mut f = String::new();
        for k in 0..len {
            f.push_str(*rng.pick(&TOKS));
            if k + 1 < len {
                f.push_str(*rng.pick(&SEPS));
            }
        }
        formats.push(f);
    }
    for (i, f) in formats.iter().enumerate() {
        let ts = SCALES[i % 9];
        m.eload_dur(ts, ns_dur(elapsed_4digit(rng, ts)));
        let how = if i % 12 == 7 { 3 } else { (i % 3) as u8 };
        let off = ns_dur((rng.below(2 * 1439 + 1) as i128 - 1439) * 60 * NS_S as i128);
        let to = if ts == TimeScale::ET || ts == TimeScale::TDB { ts } else { EXACT[i % 7] };
        render_ev(&mut m, f, how, off, to);
        m.rec.episode();
        let o = f.clone();
        let r = catch(move || Format::from_str(&o).is_ok());
        let res = match r {
            Ok(true) => "{\"ok\":1}".to_string(),
            Ok(false) => "{\"err\":1}".to_string(),
            Err(p) => jpanic(&p),
        };
        m.rec.ev("fmt_from_str", format!("\"s\":{},\"res\":{}", jstr(f), res), true);
    }
    for f in ["", "%", "%%", "%Q", "%Y%", "abc", "a%Y", "%Y?-%m", "%Y-?%m", "%Y-%m-%dT%H:%M:%S.%f? %T?", "%Y%Y%Y%Y%Y%Y%Y%Y%Y%Y%Y%Y%Y%Y%Y%Y", "%Y%Y%Y%Y%Y%Y%Y%Y%Y%Y%Y%Y%Y%Y%Y%Y%Y"] {
        m.rec.episode();
        let o = f.to_string();
        let r = catch(move || Format::from_str(&o).is_ok());
        let res = match r {
            Ok(true) => "{\"ok\":1}".to_string(),
            Ok(false) => "{\"err\":1}".to_string(),
            Err(p) => jpanic(&p),
        };
        m.rec.ev("fmt_from_str", format!("\"s\":{},\"res\":{}", jstr(f), res), true);
    }
    // round trip: UTC epochs, formats without optional tokens that contain the full date and time
    let full: Vec<String> = {
        let mut v = Vec::new();
        let dates = ["%Y-%m-%d", "%d/%m/%Y", "%Y %B %d", "%d %b %Y", "%A, %d %B %Y", "%a %Y-%m-%d", "%m %d %Y"];
        let times = ["%H:%M:%S", "%H:%M:%S.%f", "%S:%M:%H", "%H %M %S %f"];
        for d in dates {
            for t in times {
                // (any ASCII separator: 'Z' and 'x' are letters, which may stand between two numeric fields)
                for glue in ["T", " ", ", ", "Z", "x", "Z "] {
                    v.push(format!("{d}{glue}{t}"));
                    v.push(format!("{d}{glue}{t} %T"));
                    v.push(format!("{t}{glue}{d}"));
                }
                // a name as the last token of the format (the text ends in a letter), one or two separators before it
                if !d.contains("%A") && !d.contains("%a") {
                    v.push(format!("{d} {t} %A"));
                    v.push(format!("{d} {t}, %a"));
                }
                if d == "%Y-%m-%d" {
                    v.push(format!("%Y %d {t} %B"));
                    v.push(format!("%d %Y {t}, %b"));
                }
            }
        }
        // two separator characters after a token, before every kind of next token (numeric, name, time scale)
        for (s1, s2) in [(".", "-"), (" ", "("), ("-", "-"), (";", ","), ("/", "_"), (",", " "), (":", ":"), ("_", ".")] {
            v.push(format!("%d{s1}{s2}%B{s1}{s2}%Y %H:%M:%S.%f"));
            v.push(format!("%Y-%m-%d %H:%M:%S.%f{s1}{s2}%A"));
            v.push(format!("%a{s1}{s2}%d{s1}{s2}%b{s1}{s2}%Y{s1}{s2}%H{s1}{s2}%M{s1}{s2}%S"));
            v.push(format!("%Y{s2}{s1}%m{s2}{s1}%d{s2}{s1}%H{s2}{s1}%M{s2}{s1}%S{s2}{s1}%f{s2}{s1}%T"));
        }
        v
    };
    let nr = if thorough { 40 } else { 3 };
    for rep in 0..nr {
        for (i, f) in full.iter().enumerate() {
            let whole = (i + rep) % 2 == 0;
            let mut v = elapsed_4digit(rng, TimeScale::UTC);
            if whole {
                v = (v / NS_S as i128) * NS_S as i128;
            }
            m.eload_dur(TimeScale::UTC, ns_dur(v));
            if let Some(s) = render_ev(&mut m, f, 0, Duration::ZERO, TimeScale::UTC) {
                fmt_parse_ev(&mut m, f, &s);
            }
        }
    }
    // calendar landmarks (century years leap and not, the days around 28/29 February, the ends of the year) rendered
    // with formats that mix the day of year, the weekday and the month with the calendar fields
    let d1900 = days_from_civil(1900, 1, 1);
    for y in [1i64, 4, 100, 400, 1600, 1700, 1800, 1900, 2000, 2023, 2024, 2100, 2400, 9900, 9999] {
        for (mo, d) in [(1i64, 1i64), (2, 28), (2, 29), (3, 1), (6, 30), (7, 1), (12, 30), (12, 31)] {
            if mo == 2 && d == 29 && !is_leap(y as i32) {
                continue;
            }
            for (k, f) in ["%Y-%j", "%Y-%m-%d %j", "%j %H:%M", "%A %j %Y", "%a, %d %b %Y %j", "%B %d %j", "%Y-%m-%dT%H:%M:%S.%f %T %j %A"].iter().enumerate() {
                let ts = SCALES[(y as usize + mo as usize + k) % 9];
                let (gday, gtod): (i64, i128) = match ts {
                    TimeScale::GPST | TimeScale::QZSST => (29_224, 0),
                    TimeScale::GST => (36_392, 0),
                    TimeScale::BDT => (38_716, 0),
                    TimeScale::ET | TimeScale::TDB => (36_524, 43_200 * NS_S as i128),
                    _ => (0, 0),
                };
                let tod = [0i128, NS_DAY as i128 - 1, 43_200 * NS_S as i128 + 5][k % 3];
                let v = ((days_from_civil(y, mo, d) - d1900 - gday) as i128) * NS_DAY as i128 + tod - gtod;
                m.eload_dur(ts, ns_dur(v));
                render_ev(&mut m, f, 0, Duration::ZERO, ts);
            }
        }
    }
    // ... and with the offset token: rendered with a time zone (either sign, up to 23:59), parsed back to the epoch
    let zoned: Vec<String> = {
        let mut v = Vec::new();
        for d in ["%Y-%m-%d", "%d %b %Y", "%A, %d %B %Y"] {
            for t in ["%H:%M:%S", "%H:%M:%S.%f"] {
                for glue in ["T", " "] {
                    v.push(format!("{d}{glue}{t}%z"));
                    v.push(format!("{d}{glue}{t} %z"));
                    v.push(format!("{d}{glue}{t}%z %T"));
                    v.push(format!("{d}{glue}{t}, %z"));
                    v.push(format!("{d}{glue}{t} %z, %T"));
                }
            }
        }
        v
    };
    for rep in 0..(if thorough { 60 } else { 6 }) {
        for (i, f) in zoned.iter().enumerate() {
            let mut v = elapsed_4digit(rng, TimeScale::UTC);
            if (i + rep) % 2 == 0 {
                v = (v / NS_S as i128) * NS_S as i128;
            }
            m.eload_dur(TimeScale::UTC, ns_dur(v));
            let mins = match (i + rep) % 5 {
                0 => 0,
                1 => -(1 + rng.below(59) as i128),
                2 => rng.below(1440) as i128,
                3 => -(rng.below(1440) as i128),
                _ => *rng.pick(&[1439i128, -1439, 600, -600, 60, -60, 599, -601]),
            };
            let off = ns_dur(mins * 60 * NS_S as i128);
            if let Some(s) = render_ev(&mut m, f, 1, off, TimeScale::UTC) {
                fmt_parse_off_ev(&mut m, f, &s, off);
            }
        }
    }
    let _ = (safe_epoch(|| m.e), civil_from_days(0), safe(|| Duration::ZERO), EpGen::new(lm, false).lms.len());
}

// ------------------------------------------------------------------ L2 for the tokenizer model

/// Concretises every class string TLC explored in MC_Tokenizer and runs the real Epoch::from_gregorian_str on it.
/// The trace specification evaluates spec/TokenizerModel.tla on the class string and compares (transcription
/// drift); a panic is a violation of C13 whatever the model says.
pub fn tok_model(m: &mut EM, path: &str) -> u64 {
    let txt = match std::fs::read_to_string(path) {
        Ok(t) => t,
        Err(_) => return 0,
    };
    let mut n = 0u64;
    for line in txt.lines() {
        let v: serde_json::Value = match serde_json::from_str(line) {
            Ok(v) => v,
            Err(_) => continue,
        };
        let cls: Vec<String> = v.as_array().map(|a| a.iter().map(|x| x.as_str().unwrap_or("").to_string()).collect()).unwrap_or_default();
        let mut s = String::new();
        for c in &cls {
            s.push_str(match c.as_str() {
                "d" => "1",
                "x" => "U",
                "e2" => "\u{e9}",
                "n2" => "\u{663}",
                "e3" => "\u{20ac}",
                "e4" => "\u{1d11e}",
                other => other,
            });
        }
        n += 1;
        m.rec.episode();
        let o = s.clone();
        let r = with_deadline(DEADLINE_S, move || Epoch::from_gregorian_str(&o).map_err(|_| ()));
        let jc: Vec<String> = cls.iter().map(|c| format!("\"{}\"", c)).collect();
        m.rec.ev("tok_model", format!("\"cls\":[{}],\"s\":{},\"res\":{}", jc.join(","), jstr(&s), jparsed_epoch(&r)), true);
    }
    n
}
