//! TimeSeries machine driver (C15) and Weekday machine driver (C16 arithmetic).
use crate::lm::Landmarks;
use crate::p_duration::{safe, NPC};
use crate::p_epoch::{leap_entries, ns_dur, safe_epoch, EpGen, EXACT, NS_DAY, NS_S};
use crate::rec::*;
use crate::rng::Rng;
use hifitime::{Duration, Epoch, TimeScale, TimeSeries, Unit, Weekday};

pub struct SM<'a> {
    pub rec: &'a mut Rec,
    pub ts: Option<TimeSeries>,
}

fn jitem(r: &Result<Option<Epoch>, String>) -> String {
    match r {
        Ok(Some(e)) => jepoch(*e),
        Ok(None) => "{\"none\":true}".to_string(),
        Err(m) => jpanic(m),
    }
}

impl<'a> SM<'a> {
    pub fn new(rec: &'a mut Rec) -> Self {
        SM { rec, ts: None }
    }
    pub fn series_new(&mut self, start: Epoch, end: Epoch, step: Duration, incl: bool) {
        self.rec.episode();
        let r = catch(|| if incl { TimeSeries::inclusive(start, end, step) } else { TimeSeries::exclusive(start, end, step) });
        let res = match &r {
            Ok(_) => "{\"v\":1}".to_string(),
            Err(m) => jpanic(m),
        };
        self.rec.ev(
            "series_new",
            format!("\"start\":{},\"end\":{},\"step\":{},\"incl\":{},\"res\":{}", jepoch(start), jepoch(end), jdur(step), jbool(incl), res),
            true,
        );
        self.ts = r.ok();
    }
    /// one call of next(); returns false once None was returned
    pub fn next(&mut self) -> bool {
        if let Some(mut s) = self.ts.take() {
            let r = catch(|| {
                let x = s.next();
                (x, s)
            });
            let (item, back) = match r {
                Ok((x, s)) => (Ok(x), Some(s)),
                Err(m) => (Err(m), None),
            };
            self.rec.ev("series_next", format!("\"res\":{}", jitem(&item)), true);
            self.ts = back;
            matches!(item, Ok(Some(_)))
        } else {
            false
        }
    }
    pub fn nth(&mut self, n: usize) -> bool {
        if let Some(mut s) = self.ts.take() {
            let r = catch(|| {
                let x = s.nth(n);
                (x, s)
            });
            let (item, back) = match r {
                Ok((x, s)) => (Ok(x), Some(s)),
                Err(m) => (Err(m), None),
            };
            self.rec.ev("series_nth", format!("\"n\":{},\"res\":{}", n, jitem(&item)), true);
            self.ts = back;
            matches!(item, Ok(Some(_)))
        } else {
            false
        }
    }
    /// Iterator::last and Iterator::count on a copy of the series as it stands (the register is left alone): the
    /// consuming adaptors of the standard library, which an implementation may override
    pub fn last_count(&mut self) {
        if let Some(s) = self.ts.clone() {
            let s2 = s.clone();
            let last = catch(move || s.last());
            let count = catch(move || s2.count());
            let cj = match count {
                Ok(n) => n.to_string(),
                Err(_) => "-1".to_string(),
            };
            self.rec.ev("series_last", format!("\"count\":{},\"res\":{}", cj, jitem(&last)), true);
        }
    }
    /// drain the series, logging every call, with two more calls after the end
    pub fn drain(&mut self, cap: usize) {
        let mut i = 0;
        while i < cap && self.next() {
            i += 1;
        }
        if i < cap {
            self.next();
            self.next();
        }
    }
}

pub fn c15(rec: &mut Rec, lm: &Landmarks, rng: &mut Rng, thorough: bool) {
    let g = EpGen::new(lm, false);
    let mut m = SM::new(rec);
    let ticks: [i128; 5] = [1, 1_000, NS_S as i128, NS_DAY as i128, NPC as i128];
    // start epochs: before / after the reference, 5 ticks before three leap seconds, 2 ticks before a century boundary
    let le = leap_entries();
    let leap_utc: Vec<i128> = [le[1].0, le[23].0, le[27].0].iter().map(|t| *t as i128 * NS_S as i128).collect();
    // the bounded domain of MC_Series (span 0..12, step 1..5, both modes) x tick x start x scale of the end
    let mut combo: usize = 0;
    for (ti, &tick) in ticks.iter().enumerate() {
        for span in 0..=12i128 {
            for step in 1..=5i128 {
                for incl in [false, true] {
                    combo += 1;
                    let nstarts = if thorough { 9 } else { 2 };
                    for si in 0..nstarts {
                        let pick = if thorough { si } else { (combo + si * 4) % 9 };
                        let sts = crate::rec::SCALES[(combo + si) % 9];
                        let sv: i128 = match pick {
                            0 => 0,
                            1 => -3 * tick,
                            2 => -(span / 2) * tick,
                            3 => leap_utc[0] - 5 * tick,
                            4 => leap_utc[1] - 5 * tick,
                            5 => leap_utc[2] - 5 * tick,
                            6 => NPC as i128 - 2 * tick,
                            7 => -(NPC as i128) - 2 * tick,
                            _ => 36_524 * NS_DAY as i128 + 1,
                        };
                        let start = Epoch::from_duration(ns_dur(sv), if (3..=5).contains(&pick) { TimeScale::UTC } else { sts });
                        let end_same = safe_epoch(|| start + ns_dur(span * tick));
                        // end given in the start's scale, or in another exactly convertible one
                        let end = if (combo + si) % 3 == 0 && start.time_scale != TimeScale::ET && start.time_scale != TimeScale::TDB {
                            let ets = EXACT[(combo + ti) % 7];
                            safe_epoch(|| end_same.to_time_scale(ets))
                        } else {
                            end_same
                        };
                        m.series_new(start, end, ns_dur(step * tick), incl);
                        // (an end given in another scale can put a leap second, i.e. millions of items, into the span)
                        let short = end.time_scale == start.time_scale;
                        if short {
                            m.last_count();
                        }
                        if short && combo % 3 == 0 {
                            m.next();
                            m.last_count(); // ... of what is left once an item has been taken
                        }
                        m.drain(40);
                        // the same series consumed with nth(): landing on the last item, one past it, in two hops
                        // (only when the end is given in the start's scale: otherwise the span is measured in the end's
                        // scale and may differ by a leap second, i.e. by millions of items)
                        if si == 0 && end.time_scale == start.time_scale {
                            let count = if incl { span / step + 1 } else { (span + step - 1) / step } as usize;
                            m.series_new(start, end, ns_dur(step * tick), incl);
                            match combo % 4 {
                                0 if count > 0 => {
                                    m.nth(count - 1);
                                    m.next();
                                }
                                1 => {
                                    m.nth(count);
                                    m.next();
                                }
                                2 if count > 1 => {
                                    m.nth(count / 2 - if count / 2 > 0 { 1 } else { 0 });
                                    m.nth(count - count / 2 - 1);
                                    m.next();
                                }
                                _ => {
                                    // step_by(2) is nth(1) repeated
                                    m.next();
                                    let mut guard = 0;
                                    while m.nth(1) && guard < 40 {
                                        guard += 1;
                                    }
                                }
                            }
                        }
                    }
                }
            }
        }
    }
    // spans of exactly the largest duration (no bound is hit: MIN..0 and 0..MAX): the offsets k * step leave the
    // range of durations after a few items, and the series must still end
    for (sv, ev) in [(Duration::MIN, Duration::ZERO), (Duration::ZERO, Duration::MAX)] {
        for sts in [TimeScale::TAI, TimeScale::GPST, TimeScale::UTC] {
            for step in [Duration::MAX, 16_384i64 * Unit::Century, 10_923i64 * Unit::Century, 8_192i64 * Unit::Century + 1i64 * Unit::Nanosecond] {
                for incl in [false, true] {
                    m.series_new(Epoch::from_duration(sv, sts), Epoch::from_duration(ev, sts), step, incl);
                    m.drain(12);
                }
            }
        }
    }
    // random series of moderate length, every item logged
    let n = if thorough { 6_000 } else { 300 };
    for _ in 0..n {
        let sts = *rng.pick(&crate::rec::SCALES);
        // within +/- 10 000 years: a series whose start or end cannot be re-expressed in the other
        // scale without hitting a duration bound is outside the statement
        let span10k = 100 * NPC as i128;
        let sv = if rng.chance(1, 4) { *rng.pick(&g.leaps) } else { (rng.i128().rem_euclid(2 * span10k)) - span10k };
        let start = Epoch::from_duration(ns_dur(sv), sts);
        let step = match rng.below(4) {
            0 => ns_dur(1 + rng.below(10) as i128),
            1 => ns_dur(rng.below(NS_DAY) as i128 + 1),
            2 => {
                let q = rng.range_i64(1, 1000);
                let u = *rng.pick(&UNITS);
                safe(|| q * u)
            }
            _ => ns_dur((rng.log_i128(60)).abs() + 1),
        };
        let count = rng.below(60) as i128;
        let extra = match rng.below(3) {
            0 => 0,
            1 => 1,
            _ => (step.total_nanoseconds() / 2).max(0),
        };
        let span = ns_dur(step.total_nanoseconds().saturating_mul(count) + extra);
        let end0 = safe_epoch(|| start + span);
        let end = if rng.chance(1, 3) && sts != TimeScale::ET && sts != TimeScale::TDB {
            let ets = *rng.pick(&EXACT);
            safe_epoch(|| end0.to_time_scale(ets))
        } else {
            end0
        };
        m.series_new(start, end, step, rng.chance(1, 2));
        if end.time_scale == start.time_scale {
            m.last_count();
        }
        m.drain(80);
    }
    // long series: every item logged
    let long_items: i128 = if thorough { 300_000 } else { 12_000 };
    for (k, tick) in [1i128, 1_000_000_007].iter().enumerate() {
        let start = Epoch::from_duration(ns_dur(NPC as i128 - (long_items / 2) * tick), if k == 0 { TimeScale::TAI } else { TimeScale::UTC });
        let end = safe_epoch(|| start + ns_dur(long_items * tick));
        m.series_new(start, end, ns_dur(*tick), k == 0);
        m.drain(long_items as usize + 10);
    }
    // millions of items: jump with Iterator::nth (every call still goes through next())
    let total: i128 = if thorough { 10_000_000 } else { 2_000_000 };
    let start = Epoch::from_gregorian_utc_at_midnight(2016, 12, 31);
    let end = safe_epoch(|| start + ns_dur(total));
    m.series_new(start, end, ns_dur(1), false);
    let mut left = total as usize;
    while left > 0 {
        let jump = (rng.below(400_000) as usize + 1).min(left);
        if !m.nth(jump - 1) {
            break;
        }
        left -= jump;
        if rng.chance(1, 3) && left > 0 {
            m.next();
            left -= 1;
        }
    }
    m.next();
    m.nth(5);
}

// ------------------------------------------------------------------ weekday arithmetic

pub fn wd(i: u8) -> Weekday {
    Weekday::from(i)
}

fn wd_load(rec: &mut Rec, a: u8) -> Weekday {
    rec.episode();
    let r = catch(|| Weekday::from(a));
    let res = match &r {
        Ok(w) => format!("{{\"v\":{}}}", u8::from(*w)),
        Err(m) => jpanic(m),
    };
    rec.ev("wd_from_u8", format!("\"u\":{},\"res\":{}", a, res), true);
    r.unwrap_or(Weekday::Monday)
}

pub fn c16_weekday(rec: &mut Rec) {
    let ev_res = |r: &Result<Weekday, String>| match r {
        Ok(w) => format!("{{\"v\":{}}}", u8::from(*w)),
        Err(m) => jpanic(m),
    };
    // all 256 + 256 conversions
    rec.episode();
    for u in 0..=255u8 {
        let r = catch(|| Weekday::from(u));
        rec.ev("wd_from_u8", format!("\"u\":{},\"res\":{}", u, ev_res(&r)), true);
    }
    rec.episode();
    for i in -128..=127i32 {
        let r = catch(|| Weekday::from(i as i8));
        rec.ev("wd_from_i8", format!("\"i\":{},\"res\":{}", i, ev_res(&r)), true);
    }
    // all 7 x 256 sums and differences, both spellings, each from a freshly loaded register
    for a in 0..7u8 {
        for u in 0..=255u8 {
            let wa = wd_load(rec, a);
            let r = if u % 2 == 0 {
                catch(|| wa + u)
            } else {
                catch(|| {
                    let mut x = wa;
                    x += u;
                    x
                })
            };
            rec.ev(if u % 2 == 0 { "wd_add_u8" } else { "wd_add_assign_u8" }, format!("\"u\":{},\"res\":{}", u, ev_res(&r)), true);
            let wa = wd_load(rec, a);
            let r = if u % 2 == 1 {
                catch(|| wa - u)
            } else {
                catch(|| {
                    let mut x = wa;
                    x -= u;
                    x
                })
            };
            rec.ev(if u % 2 == 1 { "wd_sub_u8" } else { "wd_sub_assign_u8" }, format!("\"u\":{},\"res\":{}", u, ev_res(&r)), true);
        }
        // all 49 pairs
        for b in 0..7u8 {
            let wa = wd_load(rec, a);
            let wb = wd(b);
            let r = catch(|| wa + wb);
            rec.ev("wd_add_w", format!("\"b\":{},\"res\":{}", b, ev_res(&r)), true);
            let wa = wd_load(rec, a);
            let r = catch(|| wa - wb);
            rec.ev("wd_diff", format!("\"b\":{},\"res\":{}", b, jres_dur(&r)), true);
        }
    }
}
