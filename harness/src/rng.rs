//! Deterministic generator (SplitMix64); every random choice of the harness comes from VERIF_SEED.
pub struct Rng(pub u64);

impl Rng {
    pub fn new(seed: u64) -> Self {
        Rng(seed ^ 0x9E3779B97F4A7C15)
    }
    pub fn u64(&mut self) -> u64 {
        self.0 = self.0.wrapping_add(0x9E3779B97F4A7C15);
        let mut z = self.0;
        z = (z ^ (z >> 30)).wrapping_mul(0xBF58476D1CE4E5B9);
        z = (z ^ (z >> 27)).wrapping_mul(0x94D049BB133111EB);
        z ^ (z >> 31)
    }
    pub fn below(&mut self, n: u64) -> u64 {
        if n == 0 {
            0
        } else {
            self.u64() % n
        }
    }
    pub fn range_i64(&mut self, lo: i64, hi: i64) -> i64 {
        let span = (hi as i128 - lo as i128 + 1) as u128;
        let r = ((self.u64() as u128) << 64 | self.u64() as u128) % span;
        (lo as i128 + r as i128) as i64
    }
    pub fn pick<'a, T>(&mut self, v: &'a [T]) -> &'a T {
        &v[self.below(v.len() as u64) as usize]
    }
    pub fn chance(&mut self, num: u64, den: u64) -> bool {
        self.below(den) < num
    }
    pub fn i128(&mut self) -> i128 {
        ((self.u64() as u128) << 64 | self.u64() as u128) as i128
    }
    /// log-uniform magnitude below 2^bits, random sign
    pub fn log_i128(&mut self, bits: u32) -> i128 {
        let b = self.below(bits as u64 + 1) as u32;
        if b == 0 {
            return 0;
        }
        let mask: u128 = if b >= 128 { u128::MAX } else { (1u128 << b) - 1 };
        let m = (((self.u64() as u128) << 64 | self.u64() as u128) & mask) | (1u128 << (b - 1));
        let m = m.min(i128::MAX as u128) as i128;
        if self.chance(1, 2) {
            -m
        } else {
            m
        }
    }
    pub fn f64_unit(&mut self) -> f64 {
        (self.u64() >> 11) as f64 / (1u64 << 53) as f64
    }
}
