//! Epoch register machine driver: C04, C05, C06, C08, C09 (fields), C12, C14 (epochs), C16, C20.
use crate::lm::Landmarks;
use crate::p_duration::{mk, safe, step_landmarks, DurGen, NPC};
use crate::rec::*;
use crate::rng::Rng;
use hifitime::{Duration, Epoch, TimeScale, Unit, Weekday};

pub const NS_DAY: u64 = 86_400_000_000_000;
pub const NS_S: u64 = 1_000_000_000;

/// UTC counts (seconds since 1900-01-01) of the 28 IERS table entries, recomputed here only to
/// aim the inputs; the judgement uses the table the specification derives from the calendar.
pub fn leap_entries() -> Vec<(u64, u64)> {
    let dates: [(i32, u8); 28] = [
        (1972, 1), (1972, 7), (1973, 1), (1974, 1), (1975, 1), (1976, 1), (1977, 1), (1978, 1), (1979, 1), (1980, 1),
        (1981, 7), (1982, 7), (1983, 7), (1985, 7), (1988, 1), (1990, 1), (1991, 1), (1992, 7), (1993, 7), (1994, 7),
        (1996, 1), (1997, 7), (1999, 1), (2006, 1), (2009, 1), (2012, 7), (2015, 7), (2017, 1),
    ];
    let mut v = Vec::new();
    for (i, (y, m)) in dates.iter().enumerate() {
        let days = days_from_civil(*y as i64, *m as i64, 1) - days_from_civil(1900, 1, 1);
        v.push((days as u64 * 86_400, 10 + i as u64));
    }
    v
}

pub fn days_from_civil(y: i64, m: i64, d: i64) -> i64 {
    let y = if m <= 2 { y - 1 } else { y };
    let era = y.div_euclid(400);
    let yoe = y - era * 400;
    let mp = if m > 2 { m - 3 } else { m + 9 };
    let doy = (153 * mp + 2) / 5 + d - 1;
    let doe = yoe * 365 + yoe / 4 - yoe / 100 + doy;
    era * 146_097 + doe - 719_468
}

pub struct EM<'a> {
    pub rec: &'a mut Rec,
    pub e: Epoch,
}

fn jfields(y: i32, m: u8, d: u8, hh: u8, mi: u8, ss: u8, ns: u32) -> String {
    format!("\"y\":{y},\"m\":{m},\"d\":{d},\"hh\":{hh},\"mi\":{mi},\"ss\":{ss},\"ns\":{ns}")
}

impl<'a> EM<'a> {
    pub fn new(rec: &'a mut Rec) -> Self {
        EM { rec, e: Epoch::from_tai_duration(Duration::ZERO) }
    }
    fn set(&mut self, op: &str, args: String, r: Result<Epoch, String>, nt: bool) {
        let body = if args.is_empty() {
            format!("\"res\":{}", jres_epoch(&r))
        } else {
            format!("{},\"res\":{}", args, jres_epoch(&r))
        };
        self.rec.ev(op, body, nt);
        if let Ok(v) = r {
            self.e = v;
        }
    }
    pub fn eload(&mut self, ts: TimeScale, c: i16, n: u64) {
        self.rec.episode();
        // Epoch::from_tai_parts is another spelling of the TAI constructor
        let r = if ts == TimeScale::TAI && (n % 3 == 1) { catch(|| Epoch::from_tai_parts(c, n)) } else { catch(|| Epoch::from_duration(Duration::from_parts(c, n), ts)) };
        self.set("eload", format!("\"ts\":{},\"c\":{},\"n\":{}", ts_idx(ts), c, limbs(n as u128)), r, true);
    }
    pub fn eload_dur(&mut self, ts: TimeScale, d: Duration) {
        let (c, n) = d.to_parts();
        self.eload(ts, c, n);
    }
    pub fn add_d(&mut self, b: Duration, assign: bool) {
        let a = self.e;
        let r = if assign {
            catch(|| {
                let mut x = a;
                x += b;
                x
            })
        } else {
            catch(|| a + b)
        };
        self.set(if assign { "e_add_assign_d" } else { "e_add_d" }, format!("\"b\":{}", jdur(b)), r, b != Duration::ZERO);
    }
    pub fn sub_d(&mut self, b: Duration, assign: bool) {
        let a = self.e;
        let r = if assign {
            catch(|| {
                let mut x = a;
                x -= b;
                x
            })
        } else {
            catch(|| a - b)
        };
        self.set(if assign { "e_sub_assign_d" } else { "e_sub_d" }, format!("\"b\":{}", jdur(b)), r, b != Duration::ZERO);
    }
    pub fn add_unit(&mut self, u: Unit, assign: bool) {
        let a = self.e;
        let r = if assign {
            catch(|| {
                let mut x = a;
                x += u;
                x
            })
        } else {
            catch(|| a + u)
        };
        self.set(if assign { "e_add_assign_unit" } else { "e_add_unit" }, format!("\"u\":{}", unit_idx(u)), r, true);
    }
    pub fn sub_unit(&mut self, u: Unit, assign: bool) {
        let a = self.e;
        let r = if assign {
            catch(|| {
                let mut x = a;
                x -= u;
                x
            })
        } else {
            catch(|| a - u)
        };
        self.set(if assign { "e_sub_assign_unit" } else { "e_sub_unit" }, format!("\"u\":{}", unit_idx(u)), r, true);
    }
    /// Epoch + f64 seconds where the float is an exact integer (of any magnitude below 2^53)
    pub fn add_f64(&mut self, secs: i64) {
        let a = self.e;
        let x = secs as f64;
        let r = catch(|| a + x);
        self.set("e_add_f64", format!("\"x\":{}", jf64(x)), r, secs != 0);
    }
    pub fn sub_e(&mut self, f: Epoch) {
        let a = self.e;
        let r = catch(|| a - f);
        self.rec.ev("e_sub_e", format!("\"f\":{},\"res\":{}", jepoch(f), jres_dur(&r)), true);
    }
    pub fn to_scale(&mut self, ts: TimeScale) {
        let a = self.e;
        let r = catch(|| a.to_time_scale(ts));
        self.set("to_scale", format!("\"to\":{}", ts_idx(ts)), r, ts != a.time_scale);
    }
    /// the duration-valued accessors of the same conversion
    pub fn to_dur(&mut self, ts: TimeScale, form: u8) {
        let a = self.e;
        let r = catch(|| match (form, ts) {
            (1, TimeScale::TAI) => a.to_tai_duration(),
            (1, TimeScale::TT) => a.to_tt_duration(),
            (1, TimeScale::UTC) => a.to_utc_duration(),
            (1, TimeScale::GPST) => a.to_gpst_duration(),
            (1, TimeScale::GST) => a.to_gst_duration(),
            (1, TimeScale::BDT) => a.to_bdt_duration(),
            (1, TimeScale::QZSST) => a.to_qzsst_duration(),
            (1, TimeScale::ET) => a.to_et_duration(),
            (1, TimeScale::TDB) => a.to_tdb_duration(),
            (2, TimeScale::TAI) => a.to_duration_since_j1900(),
            _ => a.to_duration_in_time_scale(ts),
        });
        self.rec.ev("to_dur", format!("\"to\":{},\"res\":{}", ts_idx(ts), jres_dur(&r)), ts != a.time_scale);
        if ts == TimeScale::TAI && form == 2 {
            // to_tai_parts: the raw parts of the same duration
            let r = catch(|| a.to_tai_parts());
            let res = match r {
                Ok((c, n)) => jparts(c, n),
                Err(m) => jpanic(&m),
            };
            self.rec.ev("to_dur", format!("\"to\":{},\"res\":{}", ts_idx(ts), res), ts != a.time_scale);
        }
    }
    pub fn cmp(&mut self, f: Epoch) {
        let a = self.e;
        let r = catch(|| {
            let o = |x: std::cmp::Ordering| match x {
                std::cmp::Ordering::Less => -1,
                std::cmp::Ordering::Equal => 0,
                std::cmp::Ordering::Greater => 1,
            };
            let c = o(a.cmp(&f));
            let pc = a.partial_cmp(&f).map(o).unwrap_or(2);
            format!(
                "{{\"cmp\":{},\"pcmp\":{},\"lt\":{},\"le\":{},\"gt\":{},\"ge\":{},\"eq\":{},\"ne\":{},\"min\":{},\"max\":{},\"omin\":{},\"omax\":{}}}",
                c,
                pc,
                jbool(a < f),
                jbool(a <= f),
                jbool(a > f),
                jbool(a >= f),
                jbool(a == f),
                jbool(a != f),
                jepoch(Epoch::min(&a, f)),
                jepoch(Epoch::max(&a, f)),
                jepoch(Ord::min(a, f)),
                jepoch(Ord::max(a, f))
            )
        });
        let body = match r {
            Ok(s) => format!("\"f\":{},\"res\":{}", jepoch(f), s),
            Err(m) => format!("\"f\":{},\"res\":{}", jepoch(f), jpanic(&m)),
        };
        self.rec.ev("e_cmp", body, true);
    }
    /// Range<Epoch>::contains and RangeInclusive
    pub fn range_contains(&mut self, lo: Epoch, hi: Epoch) {
        let a = self.e;
        let r = catch(|| ((lo..hi).contains(&a), (lo..=hi).contains(&a)));
        let res = match r {
            Ok((x, y)) => format!("{{\"excl\":{},\"incl\":{}}}", jbool(x), jbool(y)),
            Err(m) => jpanic(&m),
        };
        self.rec.ev("e_range", format!("\"lo\":{},\"hi\":{},\"res\":{}", jepoch(lo), jepoch(hi), res), true);
    }
    /// the from_<scale>_duration constructors
    pub fn from_x_duration(&mut self, ts: TimeScale, d: Duration) {
        self.rec.episode();
        let r = match ts {
            TimeScale::TAI => catch(|| Epoch::from_tai_duration(d)),
            TimeScale::TT => catch(|| Epoch::from_tt_duration(d)),
            TimeScale::UTC => catch(|| Epoch::from_utc_duration(d)),
            TimeScale::GPST => catch(|| Epoch::from_gpst_duration(d)),
            TimeScale::GST => catch(|| Epoch::from_gst_duration(d)),
            TimeScale::BDT => catch(|| Epoch::from_bdt_duration(d)),
            TimeScale::QZSST => catch(|| Epoch::from_qzsst_duration(d)),
            TimeScale::ET => catch(|| Epoch::from_et_duration(d)),
            TimeScale::TDB => catch(|| Epoch::from_tdb_duration(d)),
            _ => catch(|| Epoch::from_duration(d, ts)),
        };
        let (c, n) = d.to_parts();
        self.set("eload", format!("\"ts\":{},\"c\":{},\"n\":{}", ts_idx(ts), c, limbs(n as u128)), r, true);
    }
    pub fn snap(&mut self, which: u8, s: Duration) {
        let a = self.e;
        let (op, r) = match which {
            0 => ("e_floor", catch(|| a.floor(s))),
            1 => ("e_ceil", catch(|| a.ceil(s))),
            _ => ("e_round", catch(|| a.round(s))),
        };
        self.set(op, format!("\"s\":{}", jdur(s)), r, s != Duration::ZERO);
    }
    /// maybe_from_gregorian and its spellings; `form` picks the spelling (only valid for it)
    #[allow(clippy::too_many_arguments)]
    pub fn from_greg(&mut self, ts: TimeScale, y: i32, m: u8, d: u8, hh: u8, mi: u8, ss: u8, ns: u32, form: u8) {
        self.rec.episode();
        let r: Result<Result<Epoch, ()>, String> = catch(|| match form {
            1 if ts == TimeScale::UTC => Epoch::maybe_from_gregorian_utc(y, m, d, hh, mi, ss, ns).map_err(|_| ()),
            2 if ts == TimeScale::TAI => Epoch::maybe_from_gregorian_tai(y, m, d, hh, mi, ss, ns).map_err(|_| ()),
            _ => Epoch::maybe_from_gregorian(y, m, d, hh, mi, ss, ns, ts).map_err(|_| ()),
        });
        let res = match &r {
            Ok(Ok(e)) => jepoch(*e),
            Ok(Err(_)) => "{\"err\":1}".to_string(),
            Err(m) => jpanic(m),
        };
        self.rec.ev("from_greg", format!("\"ts\":{},{},\"res\":{}", ts_idx(ts), jfields(y, m, d, hh, mi, ss, ns), res), true);
        if let Ok(Ok(e)) = r {
            self.e = e;
        }
        let v = catch(|| hifitime::is_gregorian_valid(y, m, d, hh, mi, ss, ns));
        let res = match v {
            Ok(b) => format!("{{\"v\":{}}}", jbool(b)),
            Err(m) => jpanic(&m),
        };
        self.rec.ev("is_valid", format!("{},\"res\":{}", jfields(y, m, d, hh, mi, ss, ns), res), true);
    }
    /// the panicking helper constructors, for valid inputs only (they document the panic)
    pub fn from_greg_helper(&mut self, ts: TimeScale, y: i32, m: u8, d: u8, hh: u8, mi: u8, ss: u8, ns: u32, form: u8) {
        self.rec.episode();
        let (r, hh2, mi2, ss2, ns2) = match form {
            0 => (catch(|| Epoch::from_gregorian(y, m, d, hh, mi, ss, ns, ts)), hh, mi, ss, ns),
            1 => (catch(|| Epoch::from_gregorian_at_midnight(y, m, d, ts)), 0, 0, 0, 0),
            2 => (catch(|| Epoch::from_gregorian_at_noon(y, m, d, ts)), 12, 0, 0, 0),
            3 => (catch(|| Epoch::from_gregorian_hms(y, m, d, hh, mi, ss, ts)), hh, mi, ss, 0),
            4 if ts == TimeScale::UTC => (catch(|| Epoch::from_gregorian_utc(y, m, d, hh, mi, ss, ns)), hh, mi, ss, ns),
            5 if ts == TimeScale::UTC => (catch(|| Epoch::from_gregorian_utc_at_midnight(y, m, d)), 0, 0, 0, 0),
            6 if ts == TimeScale::UTC => (catch(|| Epoch::from_gregorian_utc_at_noon(y, m, d)), 12, 0, 0, 0),
            7 if ts == TimeScale::UTC => (catch(|| Epoch::from_gregorian_utc_hms(y, m, d, hh, mi, ss)), hh, mi, ss, 0),
            8 if ts == TimeScale::TAI => (catch(|| Epoch::from_gregorian_tai(y, m, d, hh, mi, ss, ns)), hh, mi, ss, ns),
            9 if ts == TimeScale::TAI => (catch(|| Epoch::from_gregorian_tai_at_midnight(y, m, d)), 0, 0, 0, 0),
            10 if ts == TimeScale::TAI => (catch(|| Epoch::from_gregorian_tai_at_noon(y, m, d)), 12, 0, 0, 0),
            11 if ts == TimeScale::TAI => (catch(|| Epoch::from_gregorian_tai_hms(y, m, d, hh, mi, ss)), hh, mi, ss, 0),
            _ => (catch(|| Epoch::from_gregorian(y, m, d, hh, mi, ss, ns, ts)), hh, mi, ss, ns),
        };
        self.rec.ev(
            "from_greg",
            format!("\"ts\":{},{},\"res\":{}", ts_idx(ts), jfields(y, m, d, hh2, mi2, ss2, ns2), jres_epoch(&r)),
            true,
        );
        if let Ok(e) = r {
            self.e = e;
        }
    }
    pub fn to_greg(&mut self, ts: TimeScale) {
        let a = self.e;
        let r = catch(|| if ts == TimeScale::UTC { a.to_gregorian_utc() } else { a.to_gregorian_tai() });
        let res = match r {
            Ok((y, m, d, hh, mi, ss, ns)) => format!("{{\"v\":[{y},{m},{d},{hh},{mi},{ss},{ns}]}}"),
            Err(m) => jpanic(&m),
        };
        self.rec.ev("to_greg", format!("\"to\":{},\"res\":{}", ts_idx(ts), res), true);
    }
    /// C09: the fields of the register, then an epoch built from those fields in the same scale
    pub fn greg_round_trip(&mut self, ts: TimeScale, form: u8) {
        let a = self.e;
        self.to_greg(ts);
        if let Ok((y, mo, d, hh, mi, ss, ns)) = catch(|| if ts == TimeScale::UTC { a.to_gregorian_utc() } else { a.to_gregorian_tai() }) {
            self.from_greg(ts, y, mo, d, hh, mi, ss, ns, form);
        }
    }
    pub fn weekday(&mut self, form: u8) {
        let a = self.e;
        let (to, r) = match form {
            0 => (TimeScale::TAI, catch(|| a.weekday())),
            1 => (TimeScale::UTC, catch(|| a.weekday_utc())),
            2 => (TimeScale::TAI, catch(|| a.weekday_in_time_scale(TimeScale::TAI))),
            3 => (TimeScale::UTC, catch(|| a.weekday_in_time_scale(TimeScale::UTC))),
            _ => (TimeScale::TT, catch(|| a.weekday_in_time_scale(TimeScale::TT))),
        };
        let res = match r {
            Ok(w) => format!("{{\"v\":{}}}", u8::from(w)),
            Err(m) => jpanic(&m),
        };
        self.rec.ev("weekday", format!("\"to\":{},\"res\":{}", ts_idx(to), res), true);
    }
    pub fn next_prev(&mut self, w: Weekday, next: bool) {
        let a = self.e;
        let r = if next { catch(|| a.next(w)) } else { catch(|| a.previous(w)) };
        self.set(if next { "next" } else { "previous" }, format!("\"w\":{}", u8::from(w)), r, true);
    }
    pub fn from_tow(&mut self, ts: TimeScale, w: u32, n: u64, utc_form: bool) {
        self.rec.episode();
        let r = if utc_form && ts == TimeScale::UTC {
            catch(|| Epoch::from_time_of_week_utc(w, n))
        } else {
            catch(|| Epoch::from_time_of_week(w, n, ts))
        };
        self.set("from_tow", format!("\"ts\":{},\"w\":{},\"n\":{}", ts_idx(ts), jubig(w as u128), jubig(n as u128)), r, true);
    }
    pub fn to_tow(&mut self) {
        let a = self.e;
        if a.duration.is_negative() {
            return; // before the reference epoch: outside the statement
        }
        let r = catch(|| a.to_time_of_week());
        let res = match r {
            Ok((w, n)) => format!("{{\"w\":{},\"n\":{}}}", jubig(w as u128), jubig(n as u128)),
            Err(m) => jpanic(&m),
        };
        self.rec.ev("to_tow", format!("\"res\":{}", res), true);
    }
    pub fn from_ns(&mut self, ts: TimeScale, n: u64) {
        self.rec.episode();
        let r = match ts {
            TimeScale::GPST => catch(|| Epoch::from_gpst_nanoseconds(n)),
            TimeScale::QZSST => catch(|| Epoch::from_qzsst_nanoseconds(n)),
            TimeScale::GST => catch(|| Epoch::from_gst_nanoseconds(n)),
            _ => catch(|| Epoch::from_bdt_nanoseconds(n)),
        };
        self.set("from_ns", format!("\"ts\":{},\"n\":{}", ts_idx(ts), limbs(n as u128)), r, n != 0);
    }
    pub fn to_ns(&mut self, ts: TimeScale) {
        let a = self.e;
        let r = match ts {
            TimeScale::GPST => catch(|| a.to_gpst_nanoseconds().map_err(|_| ())),
            TimeScale::QZSST => catch(|| a.to_qzsst_nanoseconds().map_err(|_| ())),
            TimeScale::GST => catch(|| a.to_gst_nanoseconds().map_err(|_| ())),
            _ => catch(|| a.to_bdt_nanoseconds().map_err(|_| ())),
        };
        let res = match r {
            Ok(Ok(n)) => format!("{{\"ok\":{}}}", jubig(n as u128)),
            Ok(Err(_)) => "{\"err\":1}".to_string(),
            Err(m) => jpanic(&m),
        };
        self.rec.ev("to_ns", format!("\"to\":{},\"res\":{}", ts_idx(ts), res), true);
    }
}

// ------------------------------------------------------------------ inputs

pub const EXACT: [TimeScale; 7] = [
    TimeScale::TAI,
    TimeScale::TT,
    TimeScale::UTC,
    TimeScale::GPST,
    TimeScale::GST,
    TimeScale::BDT,
    TimeScale::QZSST,
];
pub const UNIFORM: [TimeScale; 6] = [
    TimeScale::TAI,
    TimeScale::TT,
    TimeScale::GPST,
    TimeScale::GST,
    TimeScale::BDT,
    TimeScale::QZSST,
];

pub fn ns_dur(x: i128) -> Duration {
    safe(|| Duration::from_total_nanoseconds(x))
}

/// elapsed-time landmarks (ns) for an epoch register: around the scale's zero, day and century
/// boundaries, the span of four-digit years, far values
pub fn epoch_ns_landmarks() -> Vec<i128> {
    let c = NPC as i128;
    let d = NS_DAY as i128;
    let mut v: Vec<i128> = Vec::new();
    for base in [0i128, d, -d, c, -c, 2 * c, -2 * c, 36_524 * d, 43_200 * NS_S as i128, -(693_595 * d), 2_958_463 * d, 100 * c, -100 * c] {
        for dn in [-(NS_S as i128), -1i128, 0, 1, NS_S as i128] {
            v.push(base + dn);
        }
    }
    v
}

/// UTC/TAI counts (ns) in windows around every leap-table entry
pub fn leap_windows(dense: bool) -> Vec<i128> {
    let mut v = Vec::new();
    for (t, dnew) in leap_entries() {
        let t = t as i128 * NS_S as i128;
        let dn = dnew as i128;
        let mut offs: Vec<i128> = vec![-40, -38, -37, -36, -35, -12, -11, -10, -9, -2, -1, 0, 1, 2, 9, 10, 11, 12, 35, 36, 37, 38, 40];
        for k in [dn - 2, dn - 1, dn, dn + 1] {
            offs.push(k);
            offs.push(-k);
        }
        if dense {
            for k in -40..=40 {
                offs.push(k);
            }
        }
        offs.sort();
        offs.dedup();
        for s in offs {
            for sub in [0i128, 1, 500_000_000, 999_999_999] {
                v.push(t + s * NS_S as i128 + sub);
            }
            v.push(t + s * NS_S as i128 - 1);
        }
    }
    v
}

pub struct EpGen<'a> {
    pub dg: DurGen<'a>,
    pub lms: Vec<i128>,
    pub leaps: Vec<i128>,
}

impl<'a> EpGen<'a> {
    pub fn new(lm: &'a Landmarks, dense: bool) -> Self {
        EpGen { dg: DurGen::new(lm), lms: epoch_ns_landmarks(), leaps: leap_windows(dense) }
    }
    /// elapsed time for a register in scale ts: mostly within +/-10 000 years, sometimes anything
    pub fn any_elapsed(&self, rng: &mut Rng, ts: TimeScale) -> Duration {
        match rng.below(10) {
            0 | 1 => ns_dur(*rng.pick(&self.lms)),
            2 | 3 => {
                let x = *rng.pick(&self.leaps);
                // a leap window is a TAI/UTC count: re-express approximately in the target scale
                let off: i128 = match ts {
                    TimeScale::GPST | TimeScale::QZSST => 2_524_953_619,
                    TimeScale::GST => 3_144_268_819,
                    TimeScale::BDT => 3_345_062_433,
                    TimeScale::ET | TimeScale::TDB => 3_155_716_800,
                    _ => 0,
                };
                ns_dur(x - off * NS_S as i128)
            }
            4 | 5 | 6 => {
                // within +/- 10 000 years
                let span = 100 * NPC as i128;
                ns_dur((rng.i128().rem_euclid(2 * span)) - span)
            }
            7 => ns_dur(rng.log_i128(70)),
            8 => ns_dur((rng.below(200 * 365) as i128 - 100 * 365) * NS_DAY as i128 + rng.below(NS_DAY) as i128),
            _ => self.dg.any_dur(rng),
        }
    }
    pub fn small_dur(&self, rng: &mut Rng) -> Duration {
        match rng.below(6) {
            0 => ns_dur(rng.below(10) as i128 - 5),
            1 => ns_dur((rng.below(200) as i128 - 100) * NS_S as i128),
            2 => ns_dur(rng.log_i128(62)),
            3 => {
                let q = rng.range_i64(-1000, 1000);
                let u = *rng.pick(&UNITS);
                safe(|| q * u)
            }
            4 => ns_dur((rng.below(80_000) as i128 - 40_000) * NS_DAY as i128),
            _ => self.dg.any_dur(rng),
        }
    }
}

pub fn c04(rec: &mut Rec, lm: &Landmarks, rng: &mut Rng, thorough: bool) {
    let g = EpGen::new(lm, false);
    let mut m = EM::new(rec);
    // landmark epochs in every scale x landmark durations
    let durs: Vec<Duration> = vec![
        ns_dur(1), ns_dur(-1), ns_dur(NS_S as i128), ns_dur(-(NS_S as i128)), ns_dur(NS_DAY as i128), ns_dur(-(NS_DAY as i128)),
        ns_dur(NPC as i128), ns_dur(-(NPC as i128)), ns_dur(NPC as i128 - 1), ns_dur(37 * NS_S as i128), ns_dur(0),
    ];
    for ts in SCALES {
        for &x in &g.lms {
            for (k, &b) in durs.iter().enumerate() {
                if !thorough && (k as u64).wrapping_add(x as u64) % 3 != 0 {
                    continue;
                }
                m.eload_dur(ts, ns_dur(x));
                let e0 = m.e;
                m.add_d(b, k % 2 == 0);
                m.sub_e(e0); // (e + d) - e = d
                m.sub_d(b, k % 2 == 1); // (e + d) - d = e
                m.cmp(e0);
            }
        }
    }
    // mirror pairs: e at +x of its scale's zero, f the instant at -x of that same zero but held in another scale (and
    // the other way round): the difference is 2x - two elapsed times that are negatives of each other are not one instant
    for (i, &a) in EXACT.iter().enumerate() {
        for (j, &b) in EXACT.iter().enumerate() {
            if a == b {
                continue;
            }
            for (k, x) in [1i128, 900 * NS_S as i128, 7305 * NS_DAY as i128, NPC as i128 / 2 - 1, NPC as i128 - 1, 3 * NPC as i128 / 2].iter().enumerate() {
                if !thorough && (i + j + k) % 2 == 1 {
                    continue;
                }
                let plus = Epoch::from_duration(ns_dur(*x), a);
                let minus = Epoch::from_duration(ns_dur(-*x), a);
                let (e, f) = if (i + k) % 2 == 0 { (plus, safe_epoch(|| minus.to_time_scale(b))) } else { (minus, safe_epoch(|| plus.to_time_scale(b))) };
                m.eload_dur(e.time_scale, e.duration);
                m.sub_e(f);
                m.cmp(f);
            }
        }
    }
    // random chains, same-scale differences, e + (f - e) = f
    let n = if thorough { 120_000 } else { 5_000 };
    for _ in 0..n {
        let ts = *rng.pick(&SCALES);
        let v = g.any_elapsed(rng, ts);
        m.eload_dur(ts, v);
        let e0 = m.e;
        match rng.below(6) {
            0 => {
                let b = g.small_dur(rng);
                m.add_d(b, rng.chance(1, 2));
                m.sub_e(e0);
                m.sub_d(b, rng.chance(1, 2));
            }
            1 => {
                let u = *rng.pick(&UNITS);
                m.add_unit(u, rng.chance(1, 2));
                m.sub_e(e0);
                m.sub_unit(u, rng.chance(1, 2));
            }
            2 => {
                // an exact integer number of seconds: small, or of any magnitude an f64 holds exactly
                let s = match rng.below(4) {
                    0 => rng.range_i64(-100_000, 100_000),
                    1 => rng.range_i64(-9_000_000, 9_000_000),
                    2 => *rng.pick(&[10_000_000_000i64, -15_000_000_000, 9_223_372_036, 9_223_372_037, -9_223_372_037, 1 << 40, -(1 << 45), 31_557_600_000, 315_576_000_000]),
                    _ => rng.log_i128(53).clamp(-(1i128 << 53), 1i128 << 53) as i64,
                };
                m.add_f64(s);
                m.sub_e(e0);
            }
            3 => {
                // f in the same scale: e + (f - e) = f
                let fv = g.any_elapsed(rng, ts);
                let f = Epoch::from_duration(fv, ts);
                let diff = safe(|| f - e0);
                m.sub_e(f);
                m.add_d(diff, false);
            }
            4 => {
                // f in another exactly convertible scale
                if e0.time_scale != TimeScale::ET && e0.time_scale != TimeScale::TDB {
                    let fts = *rng.pick(&EXACT);
                    let fv = g.any_elapsed(rng, fts);
                    m.sub_e(Epoch::from_duration(fv, fts));
                }
            }
            _ => {
                let b = g.small_dur(rng);
                m.sub_d(b, false);
                m.sub_e(e0);
                m.add_d(b, true);
            }
        }
    }
}

pub fn c05(rec: &mut Rec, lm: &Landmarks, rng: &mut Rng, thorough: bool) {
    let g = EpGen::new(lm, false);
    let mut m = EM::new(rec);
    // epochs built by the nanosecond-counter constructors of the GNSS scales (counts below and beyond one century of
    // elapsed time), converted to every uniform scale and back
    for (i, ts) in [TimeScale::GPST, TimeScale::QZSST, TimeScale::GST, TimeScale::BDT].into_iter().enumerate() {
        for (k, n) in [0u64, 1, NPC as u64 - 1, NPC as u64, NPC as u64 + 1, 2 * NPC as u64 + 17, 4_000_000_000_000_000_000, u64::MAX].into_iter().enumerate() {
            m.from_ns(ts, n);
            let b = UNIFORM[(i + k) % UNIFORM.len()];
            m.to_scale(b);
            m.to_scale(ts);
        }
    }
    // every landmark elapsed time in every uniform scale to every uniform scale and back
    for a in UNIFORM {
        for b in UNIFORM {
            for (k, &x) in g.lms.iter().enumerate() {
                if !thorough && k % 2 == 1 {
                    continue;
                }
                m.eload_dur(a, ns_dur(x));
                m.to_scale(b);
                m.to_scale(a);
            }
            // no asymmetry between the two directions: the same instant held in a and in b differ by nothing, in either
            // order, and an instant d later differs by d - through the difference of epochs as well
            for k in 0..(if thorough { 40 } else { 6 }) {
                let x = *rng.pick(&g.lms) + rng.below(1_000_000_007) as i128;
                m.eload_dur(a, ns_dur(x));
                let ea = m.e;
                let eb = safe_epoch(|| ea.to_time_scale(b));
                m.sub_e(eb);
                let d = g.small_dur(rng);
                if k % 2 == 0 {
                    m.add_d(d, false);
                    m.sub_e(eb);
                }
                m.eload_dur(b, eb.duration);
                m.sub_e(ea);
            }
            // reference epochs
            m.rec.episode();
            let r = catch(|| a.reference_epoch());
            let x = r.clone().unwrap_or(Epoch::from_tai_duration(Duration::ZERO));
            m.rec.ev("eload", format!("\"ts\":{},\"c\":0,\"n\":[],\"res\":{}", ts_idx(a), jres_epoch(&r)), true);
            m.e = x;
            m.to_scale(b);
            m.to_dur(b, 0);
            m.to_dur(b, 1);
        }
    }
    // the public reference-epoch constants denote the documented instants
    for (k, ep) in [hifitime::GPST_REF_EPOCH, hifitime::QZSST_REF_EPOCH, hifitime::GST_REF_EPOCH, hifitime::BDT_REF_EPOCH, hifitime::UNIX_REF_EPOCH, hifitime::J1900_REF_EPOCH, hifitime::J2000_REF_EPOCH]
        .iter()
        .enumerate()
    {
        m.rec.episode();
        m.rec.ev("ref_const", format!("\"k\":{},\"res\":{}", k + 1, jepoch(*ep)), true);
    }
    m.rec.episode();
    m.rec.ev(
        "offset_consts",
        format!(
            "\"gps\":{},\"gst\":{},\"bdt\":{},\"gps_f\":{},\"gst_f\":{},\"bdt_f\":{},\"gps_days\":{}",
            jbig(hifitime::SECONDS_GPS_TAI_OFFSET_I64 as i128),
            jbig(hifitime::SECONDS_GST_TAI_OFFSET_I64 as i128),
            jbig(hifitime::SECONDS_BDT_TAI_OFFSET_I64 as i128),
            jf64(hifitime::SECONDS_GPS_TAI_OFFSET),
            jf64(hifitime::SECONDS_GST_TAI_OFFSET),
            jf64(hifitime::SECONDS_BDT_TAI_OFFSET),
            jf64(hifitime::DAYS_GPS_TAI_OFFSET)
        ),
        true,
    );
    // random: round trips, commutation with addition, identity, all accessor spellings
    let n = if thorough { 150_000 } else { 6_000 };
    for i in 0..n {
        let a = *rng.pick(&UNIFORM);
        let b = *rng.pick(&UNIFORM);
        let v = g.any_elapsed(rng, a);
        if i % 4 == 0 {
            m.from_x_duration(a, v);
        } else {
            m.eload_dur(a, v);
        }
        match rng.below(4) {
            0 => {
                m.to_scale(b);
                m.to_scale(a);
            }
            1 => {
                let dd = g.small_dur(rng);
                m.to_dur(b, rng.below(3) as u8);
                m.add_d(dd, false);
                m.to_scale(b);
                m.sub_d(dd, false);
                m.to_scale(a);
            }
            2 => {
                m.to_scale(a);
                m.to_dur(a, rng.below(3) as u8);
            }
            _ => {
                let c = *rng.pick(&UNIFORM);
                m.to_scale(b);
                m.to_scale(c);
                m.to_scale(a);
            }
        }
    }
}

fn jleap(ls: &hifitime::leap_seconds::LeapSecond) -> String {
    format!("{{\"t\":{},\"d\":{},\"iers\":{}}}", jf64(ls.timestamp_tai_s), jf64(ls.delta_at), jbool(ls.announced_by_iers))
}

fn jopt_f64(r: &Result<Option<f64>, String>) -> String {
    match r {
        Ok(Some(x)) => format!("{{\"some\":{}}}", jf64(*x)),
        Ok(None) => "{\"none\":true}".to_string(),
        Err(m) => jpanic(m),
    }
}

pub const LEAP_FILE: &str = "/repo/data/leap-seconds.list";
pub const NAIF_FILE: &str = "/repo/naif0012.txt";

/// the table as the providers expose it: forward, backward, indexed; built-in and IERS file; NAIF kernel
pub fn leap_dumps(rec: &mut Rec) {
    use hifitime::leap_seconds::{LatestLeapSeconds, LeapSecondsFile};
    let dump = |rec: &mut Rec, src: &str, r: Result<Vec<String>, String>| {
        rec.episode();
        let body = match r {
            Ok(v) => format!("\"src\":\"{}\",\"res\":{{\"v\":[{}]}}", src, v.join(",")),
            Err(m) => format!("\"src\":\"{}\",\"res\":{}", src, jpanic(&m)),
        };
        rec.ev("leap_dump", body, true);
    };
    dump(rec, "builtin_fwd", catch(|| LatestLeapSeconds::default().map(|l| jleap(&l)).collect()));
    dump(rec, "builtin_rev", catch(|| LatestLeapSeconds::default().rev().map(|l| jleap(&l)).collect()));
    dump(rec, "builtin_idx", catch(|| {
        let p = LatestLeapSeconds::default();
        (0..42).map(|i| jleap(&p[i])).collect()
    }));
    dump(rec, "file_fwd", catch(|| LeapSecondsFile::from_path(LEAP_FILE).unwrap().map(|l| jleap(&l)).collect()));
    dump(rec, "file_rev", catch(|| LeapSecondsFile::from_path(LEAP_FILE).unwrap().rev().map(|l| jleap(&l)).collect()));
    dump(rec, "file_idx", catch(|| {
        let p = LeapSecondsFile::from_path(LEAP_FILE).unwrap();
        let n = p.clone().count();
        (0..n).map(|i| jleap(&p[i])).collect()
    }));
    // the providers walked through the iterator adaptors of the standard library (skip, step_by, nth followed by the
    // rest - all built on Iterator::nth): the entries listed are those of the table, in order, none twice
    let adapt = |rec: &mut Rec, src: &str, how: &str, n: usize, all: &Vec<String>, r: Result<Vec<String>, String>| {
        rec.episode();
        let res = match r {
            Ok(v) => format!("{{\"v\":[{}]}}", v.join(",")),
            Err(m) => jpanic(&m),
        };
        rec.ev("leap_adapt", format!("\"src\":\"{}\",\"how\":\"{}\",\"n\":{},\"all\":[{}],\"res\":{}", src, how, n, all.join(","), res), true);
    };
    let all_b: Vec<String> = {
        let p = LatestLeapSeconds::default();
        (0..42).map(|i| jleap(&p[i])).collect()
    };
    let all_f: Vec<String> = {
        let p = LeapSecondsFile::from_path(LEAP_FILE).unwrap();
        let n = p.clone().count();
        (0..n).map(|i| jleap(&p[i])).collect()
    };
    for n in [0usize, 1, 2, 13, 14, 15, 27, 28, 41, 42, 43] {
        adapt(rec, "builtin", "skip", n, &all_b, catch(|| LatestLeapSeconds::default().skip(n).take(300).map(|l| jleap(&l)).collect()));
        adapt(rec, "file", "skip", n, &all_f, catch(|| LeapSecondsFile::from_path(LEAP_FILE).unwrap().skip(n).take(300).map(|l| jleap(&l)).collect()));
        adapt(rec, "builtin", "nth_then", n, &all_b, catch(|| {
            let mut p = LatestLeapSeconds::default();
            let mut v: Vec<String> = p.nth(n).iter().map(jleap).collect();
            v.extend(p.take(300).map(|l| jleap(&l)));
            v
        }));
        adapt(rec, "file", "nth_then", n, &all_f, catch(|| {
            let mut p = LeapSecondsFile::from_path(LEAP_FILE).unwrap();
            let mut v: Vec<String> = p.nth(n).iter().map(jleap).collect();
            v.extend(p.take(300).map(|l| jleap(&l)));
            v
        }));
        if n > 0 {
            adapt(rec, "builtin", "step_by", n, &all_b, catch(|| LatestLeapSeconds::default().step_by(n).take(300).map(|l| jleap(&l)).collect()));
            adapt(rec, "file", "step_by", n, &all_f, catch(|| LeapSecondsFile::from_path(LEAP_FILE).unwrap().step_by(n).take(300).map(|l| jleap(&l)).collect()));
        }
    }
    // the NAIF kernel shipped with the sources: DELTET/DELTA_AT = ( delta, @YYYY-MON-D ... )
    let txt = std::fs::read_to_string(NAIF_FILE).unwrap_or_default();
    let mut items: Vec<String> = Vec::new();
    if let Some(pos) = txt.find("DELTET/DELTA_AT") {
        let tail = &txt[pos..];
        let end = tail.find(')').unwrap_or(tail.len());
        let body = &tail[tail.find('(').map(|x| x + 1).unwrap_or(0)..end];
        let toks: Vec<&str> = body.split(|c: char| c == ',' || c.is_whitespace()).filter(|t| !t.is_empty()).collect();
        let months = ["JAN", "FEB", "MAR", "APR", "MAY", "JUN", "JUL", "AUG", "SEP", "OCT", "NOV", "DEC"];
        let mut i = 0;
        while i + 1 < toks.len() {
            let delta: i64 = toks[i].parse().unwrap_or(-1);
            let date = toks[i + 1].trim_start_matches('@');
            let parts: Vec<&str> = date.split('-').collect();
            if parts.len() == 3 {
                let y: i64 = parts[0].parse().unwrap_or(0);
                let mo = months.iter().position(|m| *m == parts[1]).map(|p| p as i64 + 1).unwrap_or(0);
                let d: i64 = parts[2].parse().unwrap_or(0);
                items.push(format!("{{\"d\":{delta},\"y\":{y},\"mo\":{mo},\"day\":{d}}}"));
            }
            i += 2;
        }
    }
    rec.episode();
    rec.ev("leap_naif", format!("\"res\":{{\"v\":[{}]}}", items.join(",")), true);
}

impl<'a> EM<'a> {
    /// leap_seconds(true), leap_seconds_iers() and leap_seconds_with(file provider) on the register
    pub fn leap_query(&mut self) {
        use hifitime::leap_seconds::{LatestLeapSeconds, LeapSecondsFile};
        let a = self.e;
        let b = catch(|| a.leap_seconds(true));
        let w = catch(|| a.leap_seconds_with(true, LatestLeapSeconds::default()));
        let f = catch(|| a.leap_seconds_with(true, LeapSecondsFile::from_path(LEAP_FILE).unwrap()));
        let i = catch(|| a.leap_seconds_iers());
        let ii = match i {
            Ok(x) => format!("{{\"v\":{x}}}"),
            Err(m) => jpanic(&m),
        };
        self.rec.ev(
            "leap_query",
            format!("\"builtin\":{},\"with\":{},\"file\":{},\"iers_i32\":{}", jopt_f64(&b), jopt_f64(&w), jopt_f64(&f), ii),
            true,
        );
    }
}

/// Providers loaded from IERS-format files in their variants of layout (the configurations of C06): every
/// file is written under the run's output directory, logged line by line, loaded, dumped and queried.
pub fn leap_files(m: &mut EM, rng: &mut Rng, thorough: bool) {
    use hifitime::leap_seconds::LeapSecondsFile;
    let base = leap_entries();
    let dir = format!("{}/leapfiles", m.rec.dir);
    std::fs::create_dir_all(&dir).unwrap();
    let jan = ["1 Jan", "1 Jul"];
    // (name, lines, end of line, the table the file denotes if it is well formed)
    let mut files: Vec<(String, Vec<String>, &str, Option<Vec<(u64, u64)>>)> = Vec::new();
    let line = |t: u64, d: u64, sep: &str, tail: &str| format!("{t}{sep}{d}{tail}");
    let table = |ents: &[(u64, u64)], sep: &str, tail: bool| -> Vec<String> {
        ents.iter().enumerate().map(|(i, (t, d))| line(*t, *d, sep, if tail { format!("\t# {} {}", jan[i % 2], 1972 + i / 2) } else { String::new() }.as_str())).collect()
    };
    let header: Vec<String> = vec![
        "#".into(),
        "#\tIn the following text, the symbol '#' introduces".into(),
        "#\ta comment, which continues from that symbol until".into(),
        "#$\t 3676924800".into(),
        "#@\t3896899200".into(),
        "".into(),
    ];
    files.push(("tab".into(), table(&base, "\t", false), "\n", Some(base.clone())));
    files.push(("space".into(), table(&base, " ", false), "\n", Some(base.clone())));
    files.push(("blanks".into(), table(&base, "      ", true), "\n", Some(base.clone())));
    files.push(("blank_tab".into(), table(&base, " \t", true), "\n", Some(base.clone())));
    files.push(("tabs_crlf".into(), table(&base, "\t\t", true), "\r\n", Some(base.clone())));
    let mut with_header = header.clone();
    with_header.extend(table(&base, "\t", true));
    with_header.push("".into());
    with_header.push("#h\t16edd0f0 3666e3fc ec671ecc 5a30e2ad 1002dbce".into());
    files.push(("header".into(), with_header, "\n", Some(base.clone())));
    for k in [0usize, 1, 2, 9, 27] {
        let mut l = header.clone();
        l.extend(table(&base[..k], "\t", true));
        files.push((format!("prefix{k}"), l, "\n", Some(base[..k].to_vec())));
    }
    let mut ext = base.clone();
    ext.push(((days_from_civil(2030, 1, 1) - days_from_civil(1900, 1, 1)) as u64 * 86_400, 38));
    files.push(("extended".into(), table(&ext, "\t", true), "\n", Some(ext.clone())));
    // certainly not tables
    let mut bad = table(&base, "\t", false);
    bad[3] = "2366755200".into();
    files.push(("one_column".into(), bad, "\n", None));
    let mut bad = table(&base, "\t", false);
    bad[5] = "24613x200\t15".into();
    files.push(("not_numeric".into(), bad, "\n", None));
    let mut bad = table(&base, "\t", false);
    bad[7] = "2524521600\t256".into();
    files.push(("offset_overflow".into(), bad, "\n", None));
    let mut bad = table(&base, "\t", false);
    bad.insert(2, "   ".into());
    files.push(("blank_data_line".into(), bad, "\n", None));
    let mut bad = table(&base, "\t", false);
    bad[0] = " # indented comment".into();
    files.push(("indented_comment".into(), bad, "\n", None));
    let mut bad = table(&base, "\t", false);
    bad[9] = "99999999999999999999999\t19".into();
    files.push(("stamp_overflow".into(), bad, "\n", None));
    for (name, lines, eol, tab) in files {
        let path = format!("{dir}/{name}.list");
        let mut text = lines.join(eol);
        text.push_str(eol);
        std::fs::write(&path, text).unwrap();
        m.rec.episode();
        let p2 = path.clone();
        let r = catch(move || LeapSecondsFile::from_path(&p2).map(|p| p.map(|l| jleap(&l)).collect::<Vec<String>>()).map_err(|_| ()));
        let res = match &r {
            Ok(Ok(v)) => format!("{{\"v\":[{}]}}", v.join(",")),
            Ok(Err(_)) => "{\"err\":1}".to_string(),
            Err(p) => jpanic(p),
        };
        let jl: Vec<String> = lines.iter().map(|l| jstr(l)).collect();
        m.rec.ev("leap_file", format!("\"name\":\"{}\",\"lines\":[{}],\"res\":{}", name, jl.join(","), res), true);
        // the provider answers from its own table: around every entry of it, before the first, after the last
        if let (Some(tab), Ok(Ok(_))) = (tab, &r) {
            let jt: Vec<String> = tab.iter().map(|(t, d)| format!("{{\"t\":{},\"d\":{}}}", jubig(*t as u128), d)).collect();
            let jtab = jt.join(",");
            let mut pts: Vec<i128> = vec![0, 2_000_000_000 * NS_S as i128, 5_000_000_000 * NS_S as i128];
            for (i, (t, d)) in tab.iter().enumerate() {
                if thorough || i % 4 == 0 || i + 2 >= tab.len() {
                    let t = *t as i128 * NS_S as i128;
                    for dt in [-(NS_S as i128), -1, 0, 1, (*d as i128 - 1) * NS_S as i128, *d as i128 * NS_S as i128 - 1, *d as i128 * NS_S as i128, *d as i128 * NS_S as i128 + 1] {
                        pts.push(t + dt);
                    }
                }
            }
            for (k, x) in pts.iter().enumerate() {
                let ts = if k % 3 == 0 { TimeScale::UTC } else if k % 3 == 1 { TimeScale::TAI } else { *rng.pick(&UNIFORM) };
                m.eload_dur(ts, ns_dur(*x));
                let a = m.e;
                let p3 = path.clone();
                let r = catch(move || a.leap_seconds_with(true, LeapSecondsFile::from_path(&p3).unwrap()));
                m.rec.ev("leap_with", format!("\"name\":\"{}\",\"tab\":[{}],\"res\":{}", name, jtab, jopt_f64(&r)), true);
            }
        }
    }
}

impl<'a> EM<'a> {
    /// leap_seconds(false): the answer with the non-IERS (SOFA) entries included.  The value is the library's own
    /// (no statement pins the SOFA entries); what matters is that asking for it does not influence what follows.
    pub fn leap_all(&mut self) {
        let a = self.e;
        let r = catch(|| a.leap_seconds(false));
        self.rec.ev("leap_all", format!("\"res\":{}", jopt_f64(&r)), true);
    }
}

pub fn c06(rec: &mut Rec, lm: &Landmarks, rng: &mut Rng, thorough: bool) {
    let g = EpGen::new(lm, thorough);
    leap_dumps(rec);
    let mut m = EM::new(rec);
    leap_files(&mut m, rng, thorough);
    // the SOFA entries must not influence conversions: epochs of 1958-1973 (the span of those entries), each asked
    // for leap_seconds(false) first and then converted / queried IERS-only; and the other way round
    for i in 0..(if thorough { 3_000 } else { 300 }) {
        let day = 21_184 + rng.below(5_600) as i128; // 1958-01-01 .. 1973-05
        let v = day * NS_DAY as i128 + rng.below(NS_DAY) as i128;
        let ts = if i % 2 == 0 { TimeScale::UTC } else { TimeScale::TAI };
        m.eload_dur(ts, ns_dur(v));
        if i % 3 != 2 {
            m.leap_all();
        }
        m.leap_query();
        m.to_scale(if ts == TimeScale::UTC { TimeScale::TAI } else { TimeScale::UTC });
        m.to_scale(ts);
        if i % 3 == 2 {
            m.leap_all();
            m.leap_query();
        }
        // and a modern epoch right after: nothing carried over
        m.eload_dur(ts, ns_dur(*rng.pick(&g.leaps)));
        m.leap_query();
        m.to_dur(if ts == TimeScale::UTC { TimeScale::TAI } else { TimeScale::UTC }, 1);
    }
    // the providers answer identically: built-in table and IERS file, around every entry and elsewhere
    for (k, &x) in g.leaps.iter().enumerate() {
        if !thorough && k % 5 != 0 {
            continue;
        }
        m.eload_dur(if k % 2 == 0 { TimeScale::TAI } else { TimeScale::UTC }, ns_dur(x));
        m.leap_query();
    }
    for x in [-1i128, 0, 1_893_369_600, 2_000_000_000, 2_272_060_799, 2_272_060_800, 2_287_785_599, 2_287_785_600, 3_692_217_599, 3_692_217_600, 4_000_000_000, 9_000_000_000] {
        m.eload_dur(TimeScale::TAI, ns_dur(x * NS_S as i128));
        m.leap_query();
    }
    // the windows around every table entry, both directions, round trips
    for (k, &x) in g.leaps.iter().enumerate() {
        m.eload_dur(TimeScale::UTC, ns_dur(x));
        m.to_scale(TimeScale::TAI);
        m.to_scale(TimeScale::UTC);
        m.eload_dur(TimeScale::TAI, ns_dur(x));
        m.to_scale(TimeScale::UTC);
        if k % 3 == 0 {
            m.to_scale(TimeScale::TAI);
            m.to_dur(TimeScale::UTC, 1);
        }
    }
    // other scales into and out of UTC near the entries
    for (k, &x) in g.leaps.iter().enumerate() {
        if !thorough && k % 7 != 0 {
            continue;
        }
        let ts = UNIFORM[k % 6];
        m.eload_dur(TimeScale::UTC, ns_dur(x));
        m.to_scale(ts);
        m.to_scale(TimeScale::UTC);
    }
    // ns-dense windows right at the thresholds (the f64 comparison of the lookup)
    for (t, dnew) in leap_entries() {
        let t = t as i128 * NS_S as i128;
        let span: i128 = if thorough { 300 } else { 40 };
        for centre in [t, t + dnew as i128 * NS_S as i128, t + (dnew as i128 - 1) * NS_S as i128] {
            for dn in -span..=span {
                if !thorough && dn.abs() > 3 && dn % 7 != 0 {
                    continue;
                }
                m.eload_dur(TimeScale::UTC, ns_dur(centre + dn));
                m.to_scale(TimeScale::TAI);
                m.eload_dur(TimeScale::TAI, ns_dur(centre + dn));
                m.to_scale(TimeScale::UTC);
            }
        }
    }
    // sorted sweeps: TAI -> UTC never goes backwards (each item is compared with its predecessor)
    for (t, _) in leap_entries() {
        let t = t as i128 * NS_S as i128;
        m.rec.episode();
        let mut x = t - 3 * NS_S as i128;
        let mut first = true;
        while x < t + 42 * NS_S as i128 {
            let e = Epoch::from_tai_duration(ns_dur(x));
            let r = catch(|| e.to_time_scale(TimeScale::UTC));
            m.rec.ev(
                "sweep_utc",
                format!("\"first\":{},\"tai\":{},\"res\":{}", jbool(first), jdur(e.duration), jres_epoch(&r)),
                true,
            );
            first = false;
            x += match rng.below(4) {
                0 => 1,
                1 => 250_000_000,
                2 => 999_999_999,
                _ => NS_S as i128,
            };
        }
    }
    // between the entries, before 1972, after 2017, far away
    let n = if thorough { 200_000 } else { 8_000 };
    for _ in 0..n {
        let from_utc = rng.chance(1, 2);
        let v = match rng.below(4) {
            0 => ns_dur(rng.below(4_000_000_000) as i128 * NS_S as i128 + rng.below(NS_S) as i128),
            1 => ns_dur(2_272_060_800i128 * NS_S as i128 + rng.below(1_500_000_000) as i128 * NS_S as i128 + rng.below(NS_S) as i128),
            2 => ns_dur(*rng.pick(&g.leaps) + rng.below(3) as i128 - 1),
            _ => g.any_elapsed(rng, TimeScale::UTC),
        };
        if from_utc {
            m.eload_dur(TimeScale::UTC, v);
            m.to_scale(TimeScale::TAI);
            m.to_scale(TimeScale::UTC);
        } else {
            m.eload_dur(TimeScale::TAI, v);
            m.to_scale(TimeScale::UTC);
            m.to_scale(TimeScale::TAI);
        }
    }
}

pub fn c12(rec: &mut Rec, lm: &Landmarks, rng: &mut Rng, thorough: bool) {
    let g = EpGen::new(lm, false);
    let mut m = EM::new(rec);
    // the same instant in two scales, 1 ns apart, symmetric about each reference
    let offs: Vec<i128> = vec![0, 1, -1, 900 * NS_S as i128, -900 * NS_S as i128, (NPC / 2) as i128, -((NPC / 2) as i128), NS_S as i128, 37 * NS_S as i128];
    for a in EXACT {
        for b in EXACT {
            for &x in &offs {
                for &y in &[x, -x, x + 1, x - 1] {
                    m.eload_dur(a, ns_dur(x));
                    // the same instant re-expressed in b, shifted by (y - x)
                    let f0 = safe_epoch(|| m.e.to_time_scale(b));
                    let f = safe_epoch(|| f0 + ns_dur(y - x));
                    m.cmp(f);
                    // and a literal epoch in scale b with elapsed y (symmetric about the reference)
                    m.cmp(Epoch::from_duration(ns_dur(y), b));
                }
            }
        }
    }
    // either side of each leap second: UTC vs TAI operands, TAI operands inside the inserted second
    for (k, &x) in g.leaps.iter().enumerate() {
        if !thorough && k % 3 != 0 {
            continue;
        }
        for (a, b) in [(TimeScale::UTC, TimeScale::TAI), (TimeScale::TAI, TimeScale::UTC), (TimeScale::UTC, TimeScale::GPST), (TimeScale::UTC, TimeScale::UTC)] {
            m.eload_dur(a, ns_dur(x));
            let y = *rng.pick(&[x, x + 1, x - 1, x + NS_S as i128, x - NS_S as i128, x + 10 * NS_S as i128, x + 37 * NS_S as i128, x - 36 * NS_S as i128]);
            let off: i128 = if b == TimeScale::GPST { 2_524_953_619 * NS_S as i128 } else { 0 };
            m.cmp(Epoch::from_duration(ns_dur(y - off), b));
        }
    }
    // an operand strictly inside an inserted second (where the UTC count cannot move) against UTC
    // epochs at the entry, in both operand orders and through a third scale
    for (t, dnew) in leap_entries().into_iter().skip(1) {
        let t = t as i128 * NS_S as i128;
        let gap0 = t + (dnew as i128 - 1) * NS_S as i128; // TAI instant at which the insertion begins
        for du in [-1i128, 0, 1, NS_S as i128] {
            for dt in [0i128, 1, 500_000_000, 999_999_999, NS_S as i128] {
                let utc = Epoch::from_duration(ns_dur(t + du), TimeScale::UTC);
                let tai = Epoch::from_duration(ns_dur(gap0 + dt), TimeScale::TAI);
                let gps = Epoch::from_duration(ns_dur(gap0 + dt - 2_524_953_619 * NS_S as i128), TimeScale::GPST);
                m.eload_dur(TimeScale::UTC, utc.duration);
                m.cmp(tai);
                m.cmp(gps);
                // the same instant held in each of the other uniform scales, on the right and on the left (every scale with
                // every combination: a rotation over the scales aliased with the grid and never paired BDT with the entry itself)
                for other in [TimeScale::TT, TimeScale::GST, TimeScale::BDT, TimeScale::QZSST] {
                    let oref: i128 = match other {
                        TimeScale::TT => -32_184_000_000,
                        TimeScale::GST => 3_144_268_819 * NS_S as i128,
                        TimeScale::BDT => 3_345_062_433 * NS_S as i128,
                        _ => 2_524_953_619 * NS_S as i128,
                    };
                    let oth = Epoch::from_duration(ns_dur(gap0 + dt - oref), other);
                    m.eload_dur(TimeScale::UTC, utc.duration);
                    m.cmp(oth);
                    m.eload_dur(other, oth.duration);
                    m.cmp(utc);
                }
                m.eload_dur(TimeScale::TAI, tai.duration);
                m.cmp(utc);
            }
        }
    }
    // random pairs, converted operands
    let n = if thorough { 150_000 } else { 6_000 };
    for _ in 0..n {
        let a = *rng.pick(&EXACT);
        let b = *rng.pick(&EXACT);
        let v = g.any_elapsed(rng, a);
        m.eload_dur(a, v);
        let f = match rng.below(4) {
            0 => {
                let f0 = safe_epoch(|| m.e.to_time_scale(b));
                let dd = ns_dur(rng.below(5) as i128 - 2);
                safe_epoch(|| f0 + dd)
            }
            1 => {
                let f0 = safe_epoch(|| m.e.to_time_scale(b));
                let dd = g.small_dur(rng);
                safe_epoch(|| f0 + dd)
            }
            _ => Epoch::from_duration(g.any_elapsed(rng, b), b),
        };
        m.cmp(f);
        if rng.chance(1, 3) {
            // preserved by converting either operand
            let c = *rng.pick(&EXACT);
            m.to_scale(c);
            m.cmp(f);
        }
        if rng.chance(1, 4) {
            // ranges: [f, f + dd) and [f, f + dd] around the register
            let dd = g.small_dur(rng);
            let hi = safe_epoch(|| f + dd);
            m.range_contains(f, hi);
            m.range_contains(hi, f);
        }
    }
    // sorting vectors of epochs in mixed scales
    let ns = if thorough { 3_000 } else { 150 };
    for _ in 0..ns {
        let len = 2 + rng.below(10) as usize;
        let mut xs: Vec<Epoch> = Vec::new();
        let base_ts = *rng.pick(&EXACT);
        let base = Epoch::from_duration(ns_dur(crate::p_text::elapsed_4digit(rng, base_ts)), base_ts);
        for _ in 0..len {
            let ts = *rng.pick(&EXACT);
            let dd = match rng.below(3) {
                0 => ns_dur(rng.below(5) as i128 - 2),
                1 => ns_dur((rng.below(120) as i128 - 60) * NS_S as i128),
                _ => g.small_dur(rng),
            };
            xs.push(safe_epoch(|| (base + dd).to_time_scale(ts)));
        }
        let mut ys = xs.clone();
        let r = catch(|| {
            ys.sort();
            ys
        });
        let xin: Vec<String> = xs.iter().map(|x| jepoch(*x)).collect();
        let res = match r {
            Ok(ys) => format!("{{\"v\":[{}]}}", ys.iter().map(|x| jepoch(*x)).collect::<Vec<_>>().join(",")),
            Err(p) => jpanic(&p),
        };
        m.rec.episode();
        m.rec.ev("e_sort", format!("\"xs\":[{}],\"res\":{}", xin.join(","), res), true);
    }
}

pub fn safe_epoch(f: impl FnOnce() -> Epoch) -> Epoch {
    catch(f).unwrap_or(Epoch::from_tai_duration(Duration::ZERO))
}

pub fn c14_epochs(m: &mut EM, g: &EpGen, rng: &mut Rng, thorough: bool) {
    let steps = step_landmarks();
    // epochs before and after each scale's reference, at multiples of the step +/- 1 ns
    for ts in SCALES {
        for s in &steps {
            for k in [-1000i64, -2, -1, 0, 1, 2, 1000] {
                for dn in [-1i64, 0, 1] {
                    let sv = *s;
                    let base = safe(|| sv.abs() * k + dn * Unit::Nanosecond);
                    let w = ((k + dn + 3) % 3) as u8;
                    m.eload_dur(ts, base);
                    m.snap(w, *s);
                }
            }
        }
    }
    let n = if thorough { 100_000 } else { 4_000 };
    for _ in 0..n {
        let ts = *rng.pick(&SCALES);
        let v = g.any_elapsed(rng, ts);
        let s = match rng.below(3) {
            0 => *rng.pick(&steps),
            1 => {
                let q = rng.range_i64(1, 100_000);
                let u = *rng.pick(&UNITS);
                let neg = rng.chance(1, 4);
                safe(|| if neg { -(q * u) } else { q * u })
            }
            _ => g.small_dur(rng),
        };
        m.eload_dur(ts, v);
        m.snap(rng.below(3) as u8, s);
    }
}

// ------------------------------------------------------------------ calendar (C08, C09 fields, C16)

pub fn is_leap(y: i32) -> bool {
    (y % 4 == 0 && y % 100 != 0) || y % 400 == 0
}
pub fn dim(y: i32, m: u8) -> u8 {
    match m {
        1 | 3 | 5 | 7 | 8 | 10 | 12 => 31,
        4 | 6 | 9 | 11 => 30,
        2 => {
            if is_leap(y) {
                29
            } else {
                28
            }
        }
        _ => 0,
    }
}

/// the years whose days are enumerated: all of 0001-9999 in the thorough tier, the boundary classes otherwise
pub fn years(thorough: bool) -> Vec<i32> {
    if thorough {
        return (1..=9999).collect();
    }
    let mut v: Vec<i32> = Vec::new();
    v.extend(1..=12);
    for c in [100, 400, 1600, 1800, 1900, 2000, 2100, 2400, 9600] {
        v.extend((c - 4)..=(c + 4));
    }
    v.extend(1580..=1590);
    v.extend(1890..=1910);
    v.extend(1968..=2030);
    v.extend(9990..=9999);
    v.sort();
    v.dedup();
    v
}

pub fn c08(rec: &mut Rec, lm: &Landmarks, rng: &mut Rng, thorough: bool) {
    let _ = lm;
    let mut m = EM::new(rec);
    // every day of the enumerated years, first and last nanosecond, rotating scale and spelling
    let mut k: usize = 0;
    for y in years(thorough) {
        for mo in 1..=12u8 {
            for d in 1..=dim(y, mo) {
                k += 1;
                let ts = SCALES[k % 9];
                if k % 2 == 0 {
                    m.from_greg(ts, y, mo, d, 0, 0, 0, 0, (k % 3) as u8);
                } else {
                    m.from_greg(ts, y, mo, d, 23, 59, 59, 999_999_999, (k % 3) as u8);
                }
                if k % 37 == 0 {
                    // the helper constructors: the four generic ones in any scale, the four _utc and the four _tai ones
                    let j = ((k / 37) % 4) as u8;
                    let (hts, form) = match (k / 37) % 3 {
                        0 => (ts, j),
                        1 => (TimeScale::UTC, 4 + j),
                        _ => (TimeScale::TAI, 8 + j),
                    };
                    m.from_greg_helper(hts, y, mo, d, (k % 24) as u8, (k % 60) as u8, (k % 59) as u8, ((k as u64 * 7919) % 1_000_000_000) as u32, form);
                }
            }
        }
    }
    // sampled years out to +/- 30 000
    for y in [-30000, -29999, -10000, -4713, -401, -400, -100, -5, -4, -1, 0, 10000, 10001, 12345, 29999, 30000] {
        for (mo, d) in [(1u8, 1u8), (2, 28), (2, 29), (3, 1), (12, 31), (6, 30)] {
            if d <= dim(y, mo) {
                for ts in [TimeScale::TAI, TimeScale::UTC, TimeScale::GPST, TimeScale::ET] {
                    m.from_greg(ts, y, mo, d, 12, 34, 56, 789, 0);
                }
            }
        }
    }
    // years at the limits of the machine types (the year count times 365 overflows an i32 beyond +/-5 883 516 years
    // from 1900; i32::MIN - 1900 does not exist): a value or an error, never a panic
    for y in [i32::MIN, i32::MIN + 1, i32::MIN + 1899, i32::MIN + 1900, -5_881_617, -5_881_616, -5_881_615, 5_885_415, 5_885_416, 5_885_417, i32::MAX - 1, i32::MAX] {
        for (k, ts) in [TimeScale::TAI, TimeScale::UTC, TimeScale::GPST].iter().enumerate() {
            m.rec.episode();
            let tsv = *ts;
            // (the first of January, the last minute of June and of December: the leap second rule looks at year + 1)
            let (mo, d, hh, mi, ss) = [(1u8, 1u8, 0u8, 0u8, 0u8), (6, 30, 23, 59, 60), (12, 31, 23, 59, 0)][k];
            let r = crate::rec::with_deadline(20, move || Epoch::maybe_from_gregorian(y, mo, d, hh, mi, ss, 0, tsv).map_err(|_| ()));
            let res = match &r {
                Some(Ok(Ok(e))) => jepoch(*e),
                Some(Ok(Err(_))) => "{\"err\":1}".to_string(),
                Some(Err(p)) => jpanic(p),
                None => "{\"hang\":true}".to_string(),
            };
            m.rec.ev("from_greg_far", format!("\"ts\":{},\"y\":{},\"res\":{}", ts_idx(tsv), y, res), true);
        }
    }
    // the rejection grid: all field combinations around the limits
    let ys: [i32; 9] = [1900, 1972, 2000, 2015, 2016, 2017, 2020, 2023, 2100];
    for &y in &ys {
        for mo in 0..=13u8 {
            for d in [0u8, 1, 28, 29, 30, 31, 32] {
                for (hh, mi, ss, ns) in [(0u8, 0u8, 0u8, 0u32), (23, 59, 59, 999_999_999), (24, 0, 0, 0), (25, 0, 0, 0), (0, 60, 0, 0), (0, 0, 60, 0), (23, 59, 60, 0), (23, 59, 61, 0), (0, 0, 0, 1_000_000_000), (0, 0, 0, 1_000_000_001), (12, 59, 60, 0), (23, 58, 60, 0)] {
                    let ts = SCALES[(y as usize + mo as usize + d as usize) % 9];
                    m.from_greg(ts, y, mo, d, hh, mi, ss, ns, 0);
                }
            }
        }
    }
    // the panicking helper constructors on invalid fields: they document a panic - a shifted date is what must not happen
    for (i, (y, mo, d, hh, mi, ss)) in [(2021i32, 3u8, 4u8, 25u8, 0u8, 0u8), (2021, 3, 4, 0, 60, 0), (2021, 3, 4, 0, 0, 61), (2021, 3, 4, 23, 59, 60), (2021, 13, 4, 0, 0, 0),
        (2021, 0, 4, 0, 0, 0), (2021, 2, 29, 0, 0, 0), (2021, 4, 31, 12, 0, 0), (2021, 3, 0, 0, 0, 0), (2016, 12, 31, 12, 59, 60), (2017, 6, 30, 23, 59, 60), (1900, 2, 29, 1, 2, 3)].iter().enumerate() {
        for form in 0..12u8 {
            let ts = match form {
                4..=7 => TimeScale::UTC,
                8..=11 => TimeScale::TAI,
                _ => SCALES[(i + form as usize) % 9],
            };
            // the fields the helper actually uses (at_midnight / at_noon ignore the time of day, hms the nanoseconds)
            let (uh, um, us) = match form % 4 {
                1 => (0, 0, 0),
                2 => (12, 0, 0),
                _ => (*hh, *mi, *ss),
            };
            m.rec.episode();
            let (yy, mm, dd) = (*y, *mo, *d);
            let r = match form {
                0 => catch(|| Epoch::from_gregorian(yy, mm, dd, uh, um, us, 0, ts)),
                1 => catch(|| Epoch::from_gregorian_at_midnight(yy, mm, dd, ts)),
                2 => catch(|| Epoch::from_gregorian_at_noon(yy, mm, dd, ts)),
                3 => catch(|| Epoch::from_gregorian_hms(yy, mm, dd, uh, um, us, ts)),
                4 => catch(|| Epoch::from_gregorian_utc(yy, mm, dd, uh, um, us, 0)),
                5 => catch(|| Epoch::from_gregorian_utc_at_midnight(yy, mm, dd)),
                6 => catch(|| Epoch::from_gregorian_utc_at_noon(yy, mm, dd)),
                7 => catch(|| Epoch::from_gregorian_utc_hms(yy, mm, dd, uh, um, us)),
                8 => catch(|| Epoch::from_gregorian_tai(yy, mm, dd, uh, um, us, 0)),
                9 => catch(|| Epoch::from_gregorian_tai_at_midnight(yy, mm, dd)),
                10 => catch(|| Epoch::from_gregorian_tai_at_noon(yy, mm, dd)),
                _ => catch(|| Epoch::from_gregorian_tai_hms(yy, mm, dd, uh, um, us)),
            };
            m.rec.ev("from_greg_panicky", format!("\"ts\":{},{},\"res\":{}", ts_idx(ts), jfields(yy, mm, dd, uh, um, us, 0), jres_epoch(&r)), true);
        }
    }
    // every inserted leap second and its neighbours: same time other day, other time same day
    for (t, _) in leap_entries() {
        let days = (t / 86_400) as i64 - 1; // the day before the entry
        let z = days + days_from_civil(1900, 1, 1);
        let (y, mo, d) = civil_from_days(z);
        for ts in [TimeScale::UTC, TimeScale::TAI, TimeScale::GPST] {
            m.from_greg(ts, y, mo, d, 23, 59, 60, 0, 0);
            m.from_greg(ts, y, mo, d, 23, 59, 60, 999_999_999, 0);
            m.from_greg(ts, y, mo, d, 23, 59, 59, 0, 0);
            m.from_greg(ts, y, mo, d, 22, 59, 60, 0, 0);
            m.from_greg(ts, y, mo, d, 23, 58, 60, 0, 0);
            let (y2, m2, d2) = civil_from_days(z - 1);
            m.from_greg(ts, y2, m2, d2, 23, 59, 60, 0, 0);
            let (y3, m3, d3) = civil_from_days(z + 1);
            m.from_greg(ts, y3, m3, d3, 23, 59, 60, 0, 0);
            m.from_greg(ts, y + 1, mo, d, 23, 59, 60, 0, 0);
            m.from_greg(ts, y - 1, mo, d, 23, 59, 60, 0, 0);
        }
    }
    // random valid and invalid
    let n = if thorough { 200_000 } else { 8_000 };
    for _ in 0..n {
        let y = if rng.chance(1, 8) { rng.range_i64(-30000, 30000) as i32 } else { rng.range_i64(1, 9999) as i32 };
        let mo = if rng.chance(1, 10) { rng.below(16) as u8 } else { 1 + rng.below(12) as u8 };
        let d = if rng.chance(1, 6) { rng.below(34) as u8 } else { 1 + rng.below(dim(y, mo).max(1) as u64) as u8 };
        let hh = if rng.chance(1, 12) { rng.below(30) as u8 } else { rng.below(24) as u8 };
        let mi = if rng.chance(1, 12) { rng.below(70) as u8 } else { rng.below(60) as u8 };
        let ss = if rng.chance(1, 12) { rng.below(70) as u8 } else { rng.below(60) as u8 };
        let ns = if rng.chance(1, 12) { 999_999_990 + rng.below(20) as u32 } else { rng.below(1_000_000_000) as u32 };
        let ts = *rng.pick(&SCALES);
        m.from_greg(ts, y, mo, d, hh, mi, ss, ns, rng.below(3) as u8);
    }
}

pub fn civil_from_days(z: i64) -> (i32, u8, u8) {
    let z = z + 719_468;
    let era = z.div_euclid(146_097);
    let doe = z - era * 146_097;
    let yoe = (doe - doe / 1460 + doe / 36_524 - doe / 146_096) / 365;
    let y = yoe + era * 400;
    let doy = doe - (365 * yoe + yoe / 4 - yoe / 100);
    let mp = (5 * doy + 2) / 153;
    let d = doy - (153 * mp + 2) / 5 + 1;
    let m = if mp < 10 { mp + 3 } else { mp - 9 };
    ((if m <= 2 { y + 1 } else { y }) as i32, m as u8, d as u8)
}

/// C09 (fields) and C16 (weekday of an epoch): every enumerated day at both ends and inside
pub fn c09_fields(m: &mut EM, rng: &mut Rng, thorough: bool, with_weekday: bool, with_fields: bool) {
    let d1900 = days_from_civil(1900, 1, 1);
    let mut k: usize = 0;
    for y in years(thorough) {
        let z0 = days_from_civil(y as i64, 1, 1) - d1900;
        let ndays = if is_leap(y) { 366 } else { 365 };
        for doy in 0..ndays {
            k += 1;
            let day = (z0 + doy) as i128;
            let ts = if k % 2 == 0 { TimeScale::TAI } else { TimeScale::UTC };
            let tod: i128 = match k % 4 {
                0 => 0,
                1 => NS_DAY as i128 - 1,
                2 => rng.below(NS_DAY) as i128,
                _ => {
                    // a few ns around a unit boundary of the day
                    let h = rng.below(24) as i128 * 3_600 * NS_S as i128;
                    (h + rng.below(5) as i128 - 2).rem_euclid(NS_DAY as i128)
                }
            };
            m.eload_dur(ts, ns_dur(day * NS_DAY as i128 + tod));
            if with_fields {
                if k % 3 == 0 || doy < 2 || doy > ndays - 3 {
                    m.greg_round_trip(ts, (k % 3) as u8);
                } else {
                    m.to_greg(ts);
                }
            }
            if with_weekday {
                m.weekday(if ts == TimeScale::TAI { (k % 2 * 2) as u8 } else { (1 + k % 2 * 2) as u8 });
            }
        }
    }
}

pub fn c16_epochs(m: &mut EM, g: &EpGen, rng: &mut Rng, thorough: bool) {
    c09_fields(m, rng, thorough, true, false);
    // next/previous weekday at midnight / noon, for epochs after their scale's zero (where the elapsed
    // time of day is the civil time of day)
    {
        let wds = [Weekday::Monday, Weekday::Tuesday, Weekday::Wednesday, Weekday::Thursday, Weekday::Friday, Weekday::Saturday, Weekday::Sunday];
        for i in 0..(if thorough { 30_000 } else { 1_200 }) {
            let ts = [TimeScale::TAI, TimeScale::UTC, TimeScale::TT][i % 3];
            let v = rng.below(2_900_000) as i128 * NS_DAY as i128 + rng.below(NS_DAY) as i128;
            m.eload_dur(ts, ns_dur(v));
            let a = m.e;
            let w = *rng.pick(&wds);
            let (next, h, r) = match i % 4 {
                0 => (true, 0u64, catch(|| a.next_weekday_at_midnight(w))),
                1 => (true, 12, catch(|| a.next_weekday_at_noon(w))),
                2 => (false, 0, catch(|| a.previous_weekday_at_midnight(w))),
                _ => (false, 12, catch(|| a.previous_weekday_at_noon(w))),
            };
            m.rec.ev("x_next_at", format!("\"w\":{},\"next\":{},\"h\":{},\"res\":{}", u8::from(w), jbool(next), limbs(h as u128), jres_epoch(&r)), true);
        }
    }
    // other scales, dates before 1900, next / previous
    let wds = [Weekday::Monday, Weekday::Tuesday, Weekday::Wednesday, Weekday::Thursday, Weekday::Friday, Weekday::Saturday, Weekday::Sunday];
    let n = if thorough { 60_000 } else { 3_000 };
    for i in 0..n {
        let ts = *rng.pick(&EXACT);
        // calendar years 0001..9999 => elapsed within [-1900 y, +8100 y] of 1900
        let day = rng.below(3_652_000) as i128 - 693_590;
        let tod = match rng.below(4) {
            0 => 0,
            1 => NS_DAY as i128 - 1,
            _ => rng.below(NS_DAY) as i128,
        };
        m.eload_dur(ts, ns_dur(day * NS_DAY as i128 + tod));
        m.weekday((i % 5) as u8);
        if i % 2 == 0 {
            let w = *rng.pick(&wds);
            m.next_prev(w, rng.chance(1, 2));
        }
    }
    // next / previous across every inserted second: UTC epochs within a week either side of each table entry
    // (the step is 1..7 whole days in the epoch's own scale), every target weekday
    for (k, (t, _)) in leap_entries().iter().enumerate() {
        if !thorough && k % 3 != 0 {
            continue;
        }
        for (j, w) in wds.iter().enumerate() {
            let before = *t as i128 * NS_S as i128 - (1 + ((k + j) % 6)) as i128 * NS_DAY as i128 - rng.below(NS_DAY / 2) as i128;
            m.eload_dur(TimeScale::UTC, ns_dur(before));
            m.next_prev(*w, true);
            let after = *t as i128 * NS_S as i128 + (1 + ((k + j) % 6)) as i128 * NS_DAY as i128 + rng.below(NS_DAY / 2) as i128;
            m.eload_dur(TimeScale::UTC, ns_dur(after));
            m.next_prev(*w, false);
        }
    }
    // ... and on epochs held in the dynamical scales
    for i in 0..(if thorough { 2_000 } else { 200 }) {
        let ts = if i % 2 == 0 { TimeScale::ET } else { TimeScale::TDB };
        let day = rng.below(200_000) as i128 - 100_000;
        m.eload_dur(ts, ns_dur(day * NS_DAY as i128 + 3_600 * NS_S as i128 + rng.below(22 * 3_600 * NS_S) as i128));
        let w = *rng.pick(&wds);
        m.next_prev(w, i % 4 < 2);
    }
    let _ = g;
}

pub fn c20_tow(m: &mut EM, g: &EpGen, rng: &mut Rng, thorough: bool) {
    let ws: [u32; 12] = [0, 1, 2, 1023, 1024, 2047, 2048, 2238, 5217, 5218, 100_000, u32::MAX];
    let ns: [u64; 9] = [0, 1, NS_S, NS_DAY - 1, NS_DAY, 7 * NS_DAY - 1, 7 * NS_DAY, 7 * NS_DAY + 1, u64::MAX];
    for ts in SCALES {
        for &w in &ws {
            for &n in &ns {
                m.from_tow(ts, w, n, w % 2 == 0);
                m.to_tow();
            }
        }
    }
    let gnss = [TimeScale::GPST, TimeScale::QZSST, TimeScale::GST, TimeScale::BDT];
    for &ts in &gnss {
        for n in [0u64, 1, NPC - 1, NPC, NPC + 1, u64::MAX, 1 << 63, NS_DAY] {
            m.from_ns(ts, n);
            for &t2 in &gnss {
                m.to_ns(t2);
            }
        }
        // epochs before the reference / past one century must report an error
        for x in [-1i128, -(NS_S as i128), -(NPC as i128), NPC as i128, NPC as i128 + 1, 2 * NPC as i128, NPC as i128 - 1] {
            m.eload_dur(ts, ns_dur(x));
            for &t2 in &gnss {
                m.to_ns(t2);
            }
        }
    }
    let n = if thorough { 100_000 } else { 4_000 };
    for _ in 0..n {
        let ts = *rng.pick(&SCALES);
        match rng.below(4) {
            0 => {
                let w = if rng.chance(1, 2) { rng.below(6000) as u32 } else { rng.u64() as u32 };
                let nn = if rng.chance(1, 2) { rng.below(7 * NS_DAY) } else { rng.u64() };
                m.from_tow(ts, w, nn, rng.chance(1, 2));
                m.to_tow();
            }
            1 => {
                let v = g.any_elapsed(rng, ts);
                m.eload_dur(ts, v);
                m.to_tow();
            }
            2 => {
                let t = *rng.pick(&gnss);
                let nn = if rng.chance(1, 2) { rng.below(NPC) } else { rng.u64() };
                m.from_ns(t, nn);
                m.to_ns(*rng.pick(&gnss));
            }
            _ => {
                let t = *rng.pick(&EXACT);
                let v = g.any_elapsed(rng, t);
                m.eload_dur(t, v);
                m.to_ns(*rng.pick(&gnss));
            }
        }
    }
}

pub fn mk_unused() -> Duration {
    mk(0, 0)
}

// ------------------------------------------------------------------ L2: behaviours of the scaled Epoch machine

/// Concretisation of the scaled world of spec/Gen_Epoch.tla (= MC_Scales): one tick is one second; the
/// k-th scaled leap entry is mapped to a real table entry, so that "n ticks from the k-th entry" becomes
/// "n seconds from a real entry".  `j` selects which real insertions stand for the scaled entries 2 and 3.
struct Concr {
    j: usize,
    entries: Vec<(u64, u64)>,
}

impl Concr {
    const REF_S: [i64; 9] = [0, -2, 8, 8, 0, 5, 7, 9, 5];
    const UTC_T: [i64; 3] = [10, 18, 26];
    const GAP_S: [i64; 3] = [10, 21, 30];
    fn real_entry(&self, k: usize) -> (i128, i128, i128) {
        // (UTC count of the entry, offset before, offset from the entry on), ns
        let i = if k == 0 { 0 } else { self.j + k - 1 };
        let (t, d) = self.entries[i];
        let prev = if i == 0 { 0 } else { self.entries[i - 1].1 };
        (t as i128 * NS_S as i128, prev as i128 * NS_S as i128, d as i128 * NS_S as i128)
    }
    fn scaled_instant(ts: usize, v: i64) -> i64 {
        if ts == 4 {
            v + if v >= 26 { 5 } else if v >= 18 { 4 } else if v >= 10 { 3 } else { 0 }
        } else {
            v + Self::REF_S[ts]
        }
    }
    /// the real TAI instant (ns since 1900-01-01 TAI) standing for the scaled instant t
    fn real_instant(&self, t: i64) -> i128 {
        for k in 0..3 {
            let dlt = t - Self::GAP_S[k];
            if dlt.abs() <= 4 {
                let (tt, prev, d) = self.real_entry(k);
                // the first scaled entry steps by three ticks, the real one by ten seconds: past the scaled gap
                // means past the real gap
                let secs = if k == 0 && dlt >= 3 { dlt as i128 + (d - prev) / NS_S as i128 - 3 } else { dlt as i128 };
                return tt + prev + secs * NS_S as i128;
            }
        }
        // elsewhere: the same number of seconds from a base date that is far from every entry (2000-03-01)
        let base = (days_from_civil(2000, 3, 1) - days_from_civil(1900, 1, 1)) as i128 * NS_DAY as i128;
        base + t as i128 * NS_S as i128
    }
    fn real_ref(ts: usize) -> i128 {
        let day = |y, m, d| (days_from_civil(y, m, d) - days_from_civil(1900, 1, 1)) as i128 * NS_DAY as i128;
        match ts {
            1 => -32_184_000_000,
            2 | 3 => day(2000, 1, 1) + 43_200 * NS_S as i128 - 32_184_000_000,
            5 | 8 => day(1980, 1, 6) + 19 * NS_S as i128,
            6 => day(1999, 8, 22) + 19 * NS_S as i128,
            7 => day(2006, 1, 1) + 33 * NS_S as i128,
            _ => 0,
        }
    }
    /// the real epoch standing for the scaled epoch (ts, v); `jit` adds a sub-second pattern
    fn epoch(&self, ts: usize, v: i64, jit: u64) -> Epoch {
        let sub: i128 = [0, 0, 1, -1, 500_000_000, 999_999_999, 0, 2][(jit % 8) as usize];
        let count = if ts == 4 {
            let mut c: Option<i128> = None;
            for k in 0..3 {
                let dlt = v - Self::UTC_T[k];
                if dlt.abs() <= 4 {
                    c = Some(self.real_entry(k).0 + dlt as i128 * NS_S as i128);
                    break;
                }
            }
            c.unwrap_or_else(|| self.real_instant(Self::scaled_instant(4, v)))
        } else {
            self.real_instant(Self::scaled_instant(ts, v)) - Self::real_ref(ts)
        };
        Epoch::from_duration(ns_dur(count + sub), SCALES[ts])
    }
}

/// Replays TLC-generated behaviours of the scaled Epoch machine in the real code (every call recorded).
pub fn l2_epochs(rec: &mut Rec, path: &str, allowed: &[&str]) -> u64 {
    let txt = match std::fs::read_to_string(path) {
        Ok(t) => t,
        Err(_) => return 0,
    };
    let mut m = EM::new(rec);
    let mut nb = 0u64;
    let entries = leap_entries();
    for line in txt.lines() {
        let v: serde_json::Value = match serde_json::from_str(line) {
            Ok(v) => v,
            Err(_) => continue,
        };
        nb += 1;
        let cc = Concr { j: 1 + (nb as usize % 26), entries: entries.clone() };
        // every behaviour starts from a defined register
        m.eload(TimeScale::TAI, 0, 0);
        for (k, step) in v.as_array().unwrap().iter().enumerate() {
            let op = step["op"].as_str().unwrap_or("");
            if !allowed.contains(&op) {
                continue; // calls that are not the subject of the property being checked are left out
            }
            let a: Vec<i64> = step["a"].as_array().map(|x| x.iter().map(|y| y.as_i64().unwrap_or(0)).collect()).unwrap_or_default();
            let var = nb.wrapping_mul(7) + k as u64;
            let dur = |x: i64| ns_dur(x as i128 * NS_S as i128 + if var % 5 == 0 { 1 } else { 0 });
            match op {
                "load" => {
                    let e = cc.epoch(a[0] as usize, a[1], var);
                    m.eload_dur(e.time_scale, e.duration);
                }
                "add" => m.add_d(dur(a[0]), k % 2 == 0),
                "sub" => m.sub_d(dur(a[0]), k % 2 == 0),
                "to_scale" => m.to_scale(SCALES[a[0] as usize]),
                "cmp" => m.cmp(cc.epoch(a[0] as usize, a[1], var / 3)),
                "sub_e" => m.sub_e(cc.epoch(a[0] as usize, a[1], var / 3)),
                "floor" => m.snap(0, dur(a[0])),
                "ceil" => m.snap(1, dur(a[0])),
                "round" => m.snap(2, dur(a[0])),
                _ => {}
            }
        }
    }
    nb
}
