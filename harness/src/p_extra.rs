//! Behaviour beyond the listed properties (spec/Extras.tla): approx, constants, u8 conversions, with_hms*,
//! frequencies, TimeSeries::next_back / len, next/previous weekday at midnight/noon.
use crate::lm::Landmarks;
use crate::p_duration::{safe, DurGen, DM, NPC};
use crate::p_epoch::{ns_dur, safe_epoch, EM, EXACT, NS_DAY, NS_S};
use crate::p_misc::SM;
use crate::p_text::elapsed_4digit;
use crate::rec::*;
use crate::rng::Rng;
use hifitime::{Duration, Epoch, Freq, TimeScale, TimeSeries, Unit, Weekday};

fn jitem(r: &Result<Option<Epoch>, String>) -> String {
    match r {
        Ok(Some(e)) => jepoch(*e),
        Ok(None) => "{\"none\":true}".to_string(),
        Err(m) => jpanic(m),
    }
}

pub fn extras(rec: &mut Rec, lm: &Landmarks, rng: &mut Rng, thorough: bool) {
    let g = DurGen::new(lm);
    // constants
    rec.episode();
    rec.ev(
        "x_consts",
        format!(
            "\"zero\":{},\"max\":{},\"min\":{},\"eps\":{},\"minpos\":{},\"minneg\":{},\"dflt\":{},\"res\":{{\"v\":1}}",
            jdur(Duration::ZERO),
            jdur(Duration::MAX),
            jdur(Duration::MIN),
            jdur(Duration::EPSILON),
            jdur(Duration::MIN_POSITIVE),
            jdur(Duration::MIN_NEGATIVE),
            jdur(Duration::default())
        ),
        true,
    );
    // Unit / TimeScale <-> u8, all 256 values
    for b in 0..=255u8 {
        rec.episode();
        let u = Unit::from(b);
        rec.ev("x_unit_u8", format!("\"b\":{},\"unit\":{},\"back\":{},\"res\":{{\"v\":1}}", b, unit_idx(u), u8::from(u)), true);
        let ts = TimeScale::from(b);
        rec.ev(
            "x_scale_u8",
            format!(
                "\"b\":{},\"ts\":{},\"back\":{},\"gnss\":{},\"leap\":{},\"name\":{},\"rinex\":{},\"res\":{{\"v\":1}}",
                b,
                ts_idx(ts),
                u8::from(ts),
                jbool(ts.is_gnss()),
                jbool(ts.uses_leap_seconds()),
                jstr(&format!("{ts}")),
                jstr(&format!("{ts:x}"))
            ),
            true,
        );
    }
    // approx
    {
        let mut m = DM::new(rec);
        let n = if thorough { 60_000 } else { 3_000 };
        for i in 0..n {
            let v: i128 = match i % 4 {
                0 => rng.log_i128(66),
                1 => (rng.below(100) as i128) * *rng.pick(&[1i128, 1000, 1_000_000, NS_S as i128, 60 * NS_S as i128, 3600 * NS_S as i128, NS_DAY as i128]) + rng.below(3) as i128 - 1,
                2 => rng.below(3 * NS_DAY) as i128 - NS_DAY as i128,
                _ => (rng.i128().rem_euclid(200 * NPC as i128)) - 100 * NPC as i128,
            };
            let (c, nn) = ns_dur(v).to_parts();
            m.load(c, nn);
            let a = m.d;
            let r = catch(|| a.approx());
            m.rec.ev("x_approx", format!("\"res\":{}", jres_dur(&r)), true);
            if let Ok(x) = r {
                m.d = x;
            }
        }
        // frequencies
        let qs_i: [i64; 12] = [1, 2, 3, 7, 10, 100, 240, 250, 1000, 1_000_000, 1_000_000_007, -4];
        for (fi, f) in [Freq::GigaHertz, Freq::MegaHertz, Freq::KiloHertz, Freq::Hertz].iter().enumerate() {
            for q in qs_i {
                m.rec.episode();
                // (the trait spelling q.GHz() ... for half of them)
                use hifitime::Frequencies;
                let r = if q % 2 == 0 {
                    catch(|| match fi {
                        0 => q.GHz(),
                        1 => q.MHz(),
                        2 => q.kHz(),
                        _ => q.Hz(),
                    })
                } else {
                    catch(|| q * *f)
                };
                m.rec.ev("x_freq", format!("\"f\":{},\"q\":{},\"res\":{}", fi, jf64(q as f64), jres_dur(&r)), true);
            }
            for _ in 0..(if thorough { 4_000 } else { 300 }) {
                let q = match rng.below(3) {
                    0 => rng.f64_unit() * 1000.0 + 0.001,
                    1 => (rng.below(1_000_000) + 1) as f64,
                    _ => 10f64.powi(rng.below(18) as i32 - 6) * (1.0 + rng.f64_unit()),
                };
                m.rec.episode();
                let r = catch(|| q * *f);
                m.rec.ev("x_freq", format!("\"f\":{},\"q\":{},\"res\":{}", fi, jf64(q), jres_dur(&r)), true);
            }
        }
    }
    // with_hms and relatives, next/previous weekday at midnight / noon
    {
        let mut m = EM::new(rec);
        let wds = [Weekday::Monday, Weekday::Tuesday, Weekday::Wednesday, Weekday::Thursday, Weekday::Friday, Weekday::Saturday, Weekday::Sunday];
        let n = if thorough { 60_000 } else { 3_000 };
        for i in 0..n {
            let ts = EXACT[i % 7];
            m.eload_dur(ts, ns_dur(elapsed_4digit(rng, ts)));
            let a = m.e;
            match i % 5 {
                0 | 1 => {
                    let (h, mi, s) = if i % 7 == 0 { (rng.below(100), rng.below(200), rng.below(100_000)) } else { (rng.below(24), rng.below(60), rng.below(60)) };
                    let strict = i % 2 == 0;
                    let r = if strict { catch(|| a.with_hms_strict(h, mi, s)) } else { catch(|| a.with_hms(h, mi, s)) };
                    m.rec.ev(
                        "x_with_hms",
                        format!("\"h\":{},\"mi\":{},\"s\":{},\"strict\":{},\"res\":{}", limbs(h as u128), limbs(mi as u128), limbs(s as u128), jbool(strict), jres_epoch(&r)),
                        true,
                    );
                }
                2 | 3 => {
                    let ots = EXACT[(i / 5) % 7];
                    let o = Epoch::from_duration(ns_dur(elapsed_4digit(rng, ots)), ots);
                    let (mode, r) = match i % 3 {
                        0 => ("time", catch(|| a.with_time_from(o))),
                        1 => ("hms", catch(|| a.with_hms_from(o))),
                        _ => ("hms_strict", catch(|| a.with_hms_strict_from(o))),
                    };
                    m.rec.ev("x_with_time_from", format!("\"mode\":\"{}\",\"o\":{},\"res\":{}", mode, jepoch(o), jres_epoch(&r)), true);
                }
                _ => {
                    let w = *rng.pick(&wds);
                    let (next, h, r) = match i % 4 {
                        0 => (true, 0u64, catch(|| a.next_weekday_at_midnight(w))),
                        1 => (true, 12, catch(|| a.next_weekday_at_noon(w))),
                        2 => (false, 0, catch(|| a.previous_weekday_at_midnight(w))),
                        _ => (false, 12, catch(|| a.previous_weekday_at_noon(w))),
                    };
                    m.rec.ev("x_next_at", format!("\"w\":{},\"next\":{},\"h\":{},\"res\":{}", u8::from(w), jbool(next), limbs(h as u128), jres_epoch(&r)), true);
                }
            }
        }
    }
    // TimeSeries::next_back interleaved with next(), len() and size_hint()
    {
        let mut m = SM::new(rec);
        let n = if thorough { 6_000 } else { 400 };
        for i in 0..n {
            let ts = EXACT[i % 7];
            let start = Epoch::from_duration(ns_dur(elapsed_4digit(rng, ts)), ts);
            let step = ns_dur((1 + rng.below(1000)) as i128 * *rng.pick(&[1i128, 1000, NS_S as i128, 3600 * NS_S as i128]));
            let count = rng.below(12) as i128;
            let span = ns_dur(step.total_nanoseconds() * count + if rng.chance(1, 2) { 0 } else { step.total_nanoseconds() / 3 });
            let end = safe_epoch(|| start + span);
            m.series_new(start, end, step, i % 2 == 0);
            if let Some(s) = m.ts.clone() {
                let s2 = s.clone();
                let r = catch(move || format!("{s2}"));
                let res = match r {
                    Ok(t) => format!("{{\"v\":{}}}", jstr(&t)),
                    Err(p) => jpanic(&p),
                };
                m.rec.ev("x_series_text", format!("\"res\":{}", res), true);
                let r = catch(|| (s.len(), s.size_hint()));
                if let Ok((l, (lo, hi))) = r {
                    m.rec.ev("x_len", format!("\"len\":{},\"lo\":{},\"hi\":{},\"res\":{{\"v\":1}}", l, lo, hi.unwrap_or(0)), true);
                }
            }
            for _ in 0..(count + 3) {
                if rng.chance(1, 3) {
                    m.next();
                } else if let Some(mut s) = m.ts.take() {
                    let r = catch(|| {
                        let x = s.next_back();
                        (x, s)
                    });
                    let (item, back) = match r {
                        Ok((x, s)) => (Ok(x), Some(s)),
                        Err(p) => (Err(p), None),
                    };
                    m.rec.ev("x_next_back", format!("\"res\":{}", jitem(&item)), true);
                    m.ts = back;
                }
            }
        }
    }
    // Polynomial corrections and precise_timescale_conversion (constant-offset polynomials: the rate and
    // acceleration terms are exact zeros, so the correction is the constant taken through f64 seconds and back)
    {
        use hifitime::Polynomial;
        let mut m = EM::new(rec);
        for i in 0..(if thorough { 8_000 } else { 800 }) {
            let c_ns: i128 = match i % 5 {
                0 => rng.range_i64(-1_000, 1_000) as i128,
                1 => rng.range_i64(-1_000_000_000, 1_000_000_000) as i128,
                2 => 0,
                3 => rng.range_i64(-50, 50) as i128 * 1_000,
                _ => rng.log_i128(50),
            };
            let constant = ns_dur(c_ns);
            let poly = if i % 2 == 0 { Polynomial::from_constant_offset(constant) } else { Polynomial::from_constant_offset_nanoseconds(c_ns as f64) };
            let ts = EXACT[i % 7];
            m.eload_dur(ts, ns_dur(elapsed_4digit(rng, ts)));
            let a = m.e;
            let reference = safe_epoch(|| a - ns_dur(rng.below(86_400 * NS_S) as i128));
            let dt = safe(|| a - reference);
            let secs = catch(|| poly.constant.to_seconds());
            let corr = catch(|| poly.correction_duration(dt));
            let target = EXACT[(i / 7 + 3) % 7];
            let forward = i % 3 != 0;
            let r = catch(|| a.precise_timescale_conversion(forward, reference, poly, target).map_err(|_| ()));
            let res = match &r {
                Ok(Ok(e)) => jepoch(*e),
                Ok(Err(_)) => "{\"err\":1}".to_string(),
                Err(p) => jpanic(p),
            };
            m.rec.ev(
                "x_precise",
                format!(
                    "\"constant\":{},\"stored\":{},\"secs\":{},\"corr\":{},\"to\":{},\"forward\":{},\"res\":{}",
                    jdur(constant),
                    jdur(poly.constant),
                    match secs { Ok(x) => jf64(x), Err(ref p) => jpanic(p) },
                    jres_dur(&corr),
                    ts_idx(target),
                    jbool(forward),
                    res
                ),
                true,
            );
        }
    }
    // month and weekday names
    {
        use hifitime::MonthName;
        use std::str::FromStr;
        let mi = |m: MonthName| m as u8 + 1;
        for b in 0..=255u8 {
            rec.episode();
            let r = catch(|| {
                let m = MonthName::from(b);
                let long = format!("{m}");
                let short = format!("{m:x}");
                let bl = MonthName::from_str(&long).map(mi).unwrap_or(0);
                let bs = MonthName::from_str(&short).map(mi).unwrap_or(0);
                let bu = MonthName::from_str(&long.to_uppercase()).map(mi).unwrap_or(0);
                format!("\"b\":{},\"m\":{},\"long\":{},\"short\":{},\"back_long\":{},\"back_short\":{},\"back_upper\":{},\"res\":{{\"v\":1}}", b, mi(m), jstr(&long), jstr(&short), bl, bs, bu)
            });
            match r {
                Ok(body) => rec.ev("x_month", body, true),
                Err(p) => rec.ev("x_month", format!("\"b\":{},\"res\":{}", b, jpanic(&p)), true),
            }
        }
        for w in 0..7u8 {
            rec.episode();
            let r = catch(|| {
                let wd = Weekday::from(w);
                let long = format!("{wd}");
                let short = format!("{wd:x}");
                let bl = Weekday::from_str(&long).map(|x| u8::from(x) as i32).unwrap_or(-1);
                let bs = Weekday::from_str(&short).map(|x| u8::from(x) as i32).unwrap_or(-1);
                format!("\"w\":{},\"long\":{},\"short\":{},\"back_long\":{},\"back_short\":{},\"res\":{{\"v\":1}}", w, jstr(&long), jstr(&short), bl, bs)
            });
            match r {
                Ok(body) => rec.ev("x_wdname", body, true),
                Err(p) => rec.ev("x_wdname", format!("\"w\":{},\"res\":{}", w, jpanic(&p)), true),
            }
        }
    }
    // Hash: the same count (and scale) built in two ways hashes alike
    {
        use std::collections::hash_map::DefaultHasher;
        use std::hash::{Hash, Hasher};
        let h = |x: &dyn Fn(&mut DefaultHasher)| {
            let mut s = DefaultHasher::new();
            x(&mut s);
            s.finish()
        };
        for i in 0..(if thorough { 20_000 } else { 2_000 }) {
            let (c, n) = g.any_raw(rng);
            let a = catch(|| Duration::from_parts(c, n)).unwrap_or(Duration::ZERO);
            // the same value by another route: through the total count, or a neighbour one nanosecond away
            let b = if i % 4 == 3 { ns_dur(a.total_nanoseconds() + 1) } else {
                let (ac, an) = a.to_parts();
                catch(|| Duration::from_parts(ac.saturating_sub(1), an.saturating_add(NPC))).unwrap_or(a)
            };
            let ta = SCALES[i % 9];
            let tb = if i % 5 == 0 { SCALES[(i + 1) % 9] } else { ta };
            let (ea, eb) = (Epoch::from_duration(a, ta), Epoch::from_duration(b, tb));
            let same_dur = h(&|s| a.hash(s)) == h(&|s| b.hash(s));
            let same_epoch = h(&|s| ea.hash(s)) == h(&|s| eb.hash(s));
            rec.episode();
            rec.ev("x_hash", format!("\"a\":{},\"b\":{},\"ta\":{},\"tb\":{},\"same_dur\":{},\"same_epoch\":{},\"res\":{{\"v\":1}}", jdur(a), jdur(b), ts_idx(ta), ts_idx(tb), jbool(same_dur), jbool(same_epoch)), true);
        }
    }
    // the leap second providers as iterators, next() and next_back() mixed
    {
        use hifitime::leap_seconds::{LatestLeapSeconds, LeapSecondsFile};
        for i in 0..(if thorough { 400 } else { 60 }) {
            let builtin = i % 2 == 0;
            let ncalls = 1 + rng.below(60) as usize;
            let calls: Vec<u8> = (0..ncalls).map(|_| if rng.chance(1, 2 + (i as u64 % 3)) { 1 } else { 0 }).collect();
            // every call under its own catch: a panicking call is logged as -2 and ends the sequence
            let idx_of = |t: f64, tab: &[f64]| tab.iter().position(|x| *x == t).map(|p| p as i64 + 1).unwrap_or(-1);
            let mut out: Vec<i64> = Vec::new();
            let tab: Vec<f64> = if builtin {
                LatestLeapSeconds::default().map(|l| l.timestamp_tai_s).collect()
            } else {
                LeapSecondsFile::from_path(crate::p_epoch::LEAP_FILE).unwrap().map(|l| l.timestamp_tai_s).collect()
            };
            let mut pb = LatestLeapSeconds::default();
            let mut pf = LeapSecondsFile::from_path(crate::p_epoch::LEAP_FILE).unwrap();
            for c in &calls {
                let r = catch(|| match (builtin, *c) {
                    (true, 0) => pb.next(),
                    (true, _) => pb.next_back(),
                    (false, 0) => pf.next(),
                    (false, _) => pf.next_back(),
                });
                match r {
                    Ok(x) => out.push(x.map(|l| idx_of(l.timestamp_tai_s, &tab)).unwrap_or(0)),
                    Err(_) => {
                        out.push(-2);
                        break;
                    }
                }
            }
            rec.episode();
            let cs: Vec<String> = calls.iter().map(|c| c.to_string()).collect();
            let os: Vec<String> = out.iter().map(|c| c.to_string()).collect();
            rec.ev("x_leap_iter", format!("\"builtin\":{},\"calls\":[{}],\"len\":{},\"res\":{{\"v\":[{}]}}", jbool(builtin), cs.join(","), tab.len(), os.join(",")), true);
        }
    }
    let _ = (g.raw.len(), TimeSeries::inclusive(Epoch::from_tai_duration(Duration::ZERO), Epoch::from_tai_duration(Duration::ZERO), Duration::EPSILON));
}
