//! Behaviour beyond the listed properties (spec/Extras.tla): approx, constants, u8 conversions, with_hms*,
//! frequencies, TimeSeries::next_back / len, next/previous weekday at midnight/noon.
use crate::lm::Landmarks;
use crate::p_duration::{DurGen, DM, NPC};
use crate::p_epoch::{ns_dur, safe_epoch, EM, EXACT, NS_DAY, NS_S};
use crate::p_misc::SM;
use crate::p_text::elapsed_4digit;
use crate::rec::*;
use crate::rng::Rng;
use hifitime::{Duration, Epoch, Freq, TimeScale, TimeSeries, Unit, Weekday};

fn jitem(r: &Result<Option<Epoch>, String>) -> String {
    match r {
        Ok(Some(e)) => jepoch(*e),
        Ok(None) => "{\"none\":true}".to_string(),
        Err(m) => jpanic(m),
    }
}

pub fn extras(rec: &mut Rec, lm: &Landmarks, rng: &mut Rng, thorough: bool) {
    let g = DurGen::new(lm);
    // constants
    rec.episode();
    rec.ev(
        "x_consts",
        format!(
            "\"zero\":{},\"max\":{},\"min\":{},\"eps\":{},\"minpos\":{},\"minneg\":{},\"dflt\":{},\"res\":{{\"v\":1}}",
            jdur(Duration::ZERO),
            jdur(Duration::MAX),
            jdur(Duration::MIN),
            jdur(Duration::EPSILON),
            jdur(Duration::MIN_POSITIVE),
            jdur(Duration::MIN_NEGATIVE),
            jdur(Duration::default())
        ),
        true,
    );
    // Unit / TimeScale <-> u8, all 256 values
    for b in 0..=255u8 {
        rec.episode();
        let u = Unit::from(b);
        rec.ev("x_unit_u8", format!("\"b\":{},\"unit\":{},\"back\":{},\"res\":{{\"v\":1}}", b, unit_idx(u), u8::from(u)), true);
        let ts = TimeScale::from(b);
        rec.ev(
            "x_scale_u8",
            format!(
                "\"b\":{},\"ts\":{},\"back\":{},\"gnss\":{},\"leap\":{},\"name\":{},\"rinex\":{},\"res\":{{\"v\":1}}",
                b,
                ts_idx(ts),
                u8::from(ts),
                jbool(ts.is_gnss()),
                jbool(ts.uses_leap_seconds()),
                jstr(&format!("{ts}")),
                jstr(&format!("{ts:x}"))
            ),
            true,
        );
    }
    // approx
    {
        let mut m = DM::new(rec);
        let n = if thorough { 60_000 } else { 3_000 };
        for i in 0..n {
            let v: i128 = match i % 4 {
                0 => rng.log_i128(66),
                1 => (rng.below(100) as i128) * *rng.pick(&[1i128, 1000, 1_000_000, NS_S as i128, 60 * NS_S as i128, 3600 * NS_S as i128, NS_DAY as i128]) + rng.below(3) as i128 - 1,
                2 => rng.below(3 * NS_DAY) as i128 - NS_DAY as i128,
                _ => (rng.i128().rem_euclid(200 * NPC as i128)) - 100 * NPC as i128,
            };
            let (c, nn) = ns_dur(v).to_parts();
            m.load(c, nn);
            let a = m.d;
            let r = catch(|| a.approx());
            m.rec.ev("x_approx", format!("\"res\":{}", jres_dur(&r)), true);
            if let Ok(x) = r {
                m.d = x;
            }
        }
        // frequencies
        let qs_i: [i64; 12] = [1, 2, 3, 7, 10, 100, 240, 250, 1000, 1_000_000, 1_000_000_007, -4];
        for (fi, f) in [Freq::GigaHertz, Freq::MegaHertz, Freq::KiloHertz, Freq::Hertz].iter().enumerate() {
            for q in qs_i {
                m.rec.episode();
                let r = catch(|| q * *f);
                m.rec.ev("x_freq", format!("\"f\":{},\"q\":{},\"res\":{}", fi, jf64(q as f64), jres_dur(&r)), true);
            }
            for _ in 0..(if thorough { 4_000 } else { 300 }) {
                let q = match rng.below(3) {
                    0 => rng.f64_unit() * 1000.0 + 0.001,
                    1 => (rng.below(1_000_000) + 1) as f64,
                    _ => 10f64.powi(rng.below(18) as i32 - 6) * (1.0 + rng.f64_unit()),
                };
                m.rec.episode();
                let r = catch(|| q * *f);
                m.rec.ev("x_freq", format!("\"f\":{},\"q\":{},\"res\":{}", fi, jf64(q), jres_dur(&r)), true);
            }
        }
    }
    // with_hms and relatives, next/previous weekday at midnight / noon
    {
        let mut m = EM::new(rec);
        let wds = [Weekday::Monday, Weekday::Tuesday, Weekday::Wednesday, Weekday::Thursday, Weekday::Friday, Weekday::Saturday, Weekday::Sunday];
        let n = if thorough { 60_000 } else { 3_000 };
        for i in 0..n {
            let ts = EXACT[i % 7];
            m.eload_dur(ts, ns_dur(elapsed_4digit(rng, ts)));
            let a = m.e;
            match i % 5 {
                0 | 1 => {
                    let (h, mi, s) = if i % 7 == 0 { (rng.below(100), rng.below(200), rng.below(100_000)) } else { (rng.below(24), rng.below(60), rng.below(60)) };
                    let strict = i % 2 == 0;
                    let r = if strict { catch(|| a.with_hms_strict(h, mi, s)) } else { catch(|| a.with_hms(h, mi, s)) };
                    m.rec.ev(
                        "x_with_hms",
                        format!("\"h\":{},\"mi\":{},\"s\":{},\"strict\":{},\"res\":{}", limbs(h as u128), limbs(mi as u128), limbs(s as u128), jbool(strict), jres_epoch(&r)),
                        true,
                    );
                }
                2 | 3 => {
                    let ots = EXACT[(i / 5) % 7];
                    let o = Epoch::from_duration(ns_dur(elapsed_4digit(rng, ots)), ots);
                    let (mode, r) = match i % 3 {
                        0 => ("time", catch(|| a.with_time_from(o))),
                        1 => ("hms", catch(|| a.with_hms_from(o))),
                        _ => ("hms_strict", catch(|| a.with_hms_strict_from(o))),
                    };
                    m.rec.ev("x_with_time_from", format!("\"mode\":\"{}\",\"o\":{},\"res\":{}", mode, jepoch(o), jres_epoch(&r)), true);
                }
                _ => {
                    let w = *rng.pick(&wds);
                    let (next, h, r) = match i % 4 {
                        0 => (true, 0u64, catch(|| a.next_weekday_at_midnight(w))),
                        1 => (true, 12, catch(|| a.next_weekday_at_noon(w))),
                        2 => (false, 0, catch(|| a.previous_weekday_at_midnight(w))),
                        _ => (false, 12, catch(|| a.previous_weekday_at_noon(w))),
                    };
                    m.rec.ev("x_next_at", format!("\"w\":{},\"next\":{},\"h\":{},\"res\":{}", u8::from(w), jbool(next), limbs(h as u128), jres_epoch(&r)), true);
                }
            }
        }
    }
    // TimeSeries::next_back interleaved with next(), len() and size_hint()
    {
        let mut m = SM::new(rec);
        let n = if thorough { 6_000 } else { 400 };
        for i in 0..n {
            let ts = EXACT[i % 7];
            let start = Epoch::from_duration(ns_dur(elapsed_4digit(rng, ts)), ts);
            let step = ns_dur((1 + rng.below(1000)) as i128 * *rng.pick(&[1i128, 1000, NS_S as i128, 3600 * NS_S as i128]));
            let count = rng.below(12) as i128;
            let span = ns_dur(step.total_nanoseconds() * count + if rng.chance(1, 2) { 0 } else { step.total_nanoseconds() / 3 });
            let end = safe_epoch(|| start + span);
            m.series_new(start, end, step, i % 2 == 0);
            if let Some(s) = m.ts.clone() {
                let r = catch(|| (s.len(), s.size_hint()));
                if let Ok((l, (lo, hi))) = r {
                    m.rec.ev("x_len", format!("\"len\":{},\"lo\":{},\"hi\":{},\"res\":{{\"v\":1}}", l, lo, hi.unwrap_or(0)), true);
                }
            }
            for _ in 0..(count + 3) {
                if rng.chance(1, 3) {
                    m.next();
                } else if let Some(mut s) = m.ts.take() {
                    let r = catch(|| {
                        let x = s.next_back();
                        (x, s)
                    });
                    let (item, back) = match r {
                        Ok((x, s)) => (Ok(x), Some(s)),
                        Err(p) => (Err(p), None),
                    };
                    m.rec.ev("x_next_back", format!("\"res\":{}", jitem(&item)), true);
                    m.ts = back;
                }
            }
        }
    }
    let _ = (g.raw.len(), TimeSeries::inclusive(Epoch::from_tai_duration(Duration::ZERO), Epoch::from_tai_duration(Duration::ZERO), Duration::EPSILON));
}
