#!/usr/bin/env python3
"""Evaluate seeded changes: confirm each one (suite passes, demo fails with / passes without),
then run the registered quick checks against it in /repo and undo it straight afterwards.

usage: seedtest.py <seed_src_dir> <name> <worktree> <prop> [<prop> ...]
  seed_src_dir: directory with patch.diff, demo.rs, meta.json (from a sub-agent)
  name:         directory name under /verif/seeded/
  worktree:     a clean scratch worktree of /repo used for the confirmation
"""
import json
import os
import shutil
import subprocess
import sys
import time

ROOT = os.path.dirname(os.path.dirname(os.path.abspath(__file__)))


def sh(cmd, cwd=None, timeout=3600):
    p = subprocess.run(cmd, shell=True, cwd=cwd, stdout=subprocess.PIPE, stderr=subprocess.STDOUT, text=True, timeout=timeout, errors="replace")
    return p.returncode, p.stdout


def confirm(src, wt):
    """suite passes with the change, demo fails with it and passes without it"""
    res = {}
    sh("git checkout -- . && rm -f tests/seed_demo.rs", cwd=wt)
    rc, out = sh("git apply %s/patch.diff" % src, cwd=wt)
    if rc != 0:
        return {"applies": False, "log": out[-500:]}
    res["applies"] = True
    rc, out = sh("cargo test --workspace --no-fail-fast --offline 2>&1 | grep -E '^test result|^error' ", cwd=wt)
    res["suite_passes_with_change"] = ("FAILED" not in out and "error" not in out and out.count("test result: ok") >= 8)
    shutil.copy(os.path.join(src, "demo.rs"), os.path.join(wt, "tests", "seed_demo.rs"))
    rc, out = sh("cargo test --offline --test seed_demo 2>&1 | tail -5", cwd=wt)
    res["demo_fails_with_change"] = (rc != 0 or "FAILED" in out)
    sh("git checkout -- .", cwd=wt)
    rc, out = sh("cargo test --offline --test seed_demo 2>&1 | tail -5", cwd=wt)
    res["demo_passes_without_change"] = ("test result: ok" in out and "FAILED" not in out)
    sh("rm -f tests/seed_demo.rs && git checkout -- .", cwd=wt)
    return res


def run_checks(src, props):
    out = {}
    rc, o = sh("git -C /repo status --porcelain")
    if o.strip():
        raise SystemExit("/repo is not clean: " + o)
    rc, o = sh("git -C /repo apply %s/patch.diff" % src)
    if rc != 0:
        raise SystemExit("patch does not apply to /repo: " + o)
    try:
        for p in props:
            t = time.time()
            rc, o = sh("%s/bin/check %s --tier quick" % (ROOT, p), cwd=ROOT, timeout=7200)
            viol = [ln for ln in o.splitlines() if ln.startswith("VIOLATION")]
            why = [ln.strip()[:300] for ln in o.splitlines() if "no action of the specification explains" in ln][:3]
            out[p] = {"exit": rc, "violations": len(viol), "first": why, "wall_s": round(time.time() - t)}
    finally:
        sh("git -C /repo checkout -- .")
    return out


def main():
    src, name, wt = sys.argv[1:4]
    props = sys.argv[4:]
    meta = json.load(open(os.path.join(src, "meta.json")))
    conf = confirm(src, wt)
    ok = conf.get("applies") and conf.get("suite_passes_with_change") and conf.get("demo_fails_with_change") and conf.get("demo_passes_without_change")
    dst = os.path.join(ROOT, "seeded", name)
    result = {"confirmed": bool(ok), "confirmation": conf}
    if ok:
        result["checks"] = run_checks(src, props)
        result["detected"] = any(v["exit"] == 1 for v in result["checks"].values())
        os.makedirs(dst, exist_ok=True)
        shutil.copy(os.path.join(src, "patch.diff"), dst)
        shutil.copy(os.path.join(src, "demo.rs"), dst)
        meta.update({"what_i_ran": "confirmed in a scratch worktree: cargo test --workspace --no-fail-fast --offline passes with the change; tests/seed_demo.rs fails with it and passes without it. Then: git -C /repo apply patch.diff; bin/check <id> --tier quick for %s; git -C /repo checkout -- ." % props,
                     "result": result})
        json.dump(meta, open(os.path.join(dst, "meta.json"), "w"), indent=1)
    print(json.dumps({"name": name, **result}, indent=1))


if __name__ == "__main__":
    main()
