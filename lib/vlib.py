#!/usr/bin/env python3
"""Orchestrator for the model-based verification of hifitime (see DESIGN.md).

Per property:  build harness from /repo  ->  L1 (TLC, exhaustive, scaled model)
               ->  harness records the real code  ->  L3 (TLC validates every recorded
               call against the specification at the real constants)  ->  evidence.

Exit codes: 0 = property held on everything explored (known findings are printed as
KNOWN-FINDING lines); 1 = at least one VIOLATION line; 2 = the machinery itself failed.
"""
import concurrent.futures as cf
import json
import os
import re
import shutil
import subprocess
import sys
import time

ROOT = os.path.dirname(os.path.dirname(os.path.abspath(__file__)))
SPEC = os.path.join(ROOT, "spec")
WORK = os.path.join(ROOT, "work")
HARNESS = os.path.join(ROOT, "harness")
HV = os.path.join(HARNESS, "target", "release", "hv")
EVID = os.path.join(ROOT, "evidence")
REPLAYS = os.path.join(ROOT, "replays")
KNOWN = os.path.join(ROOT, "known_findings.json")
TLC_CP = "/opt/veriftools/tla/tla2tools.jar:/opt/veriftools/tla/CommunityModules-deps.jar"
MAX_REJECTS_PER_SHARD = 12


class ToolError(Exception):
    pass


def log(*a):
    print(*a, flush=True)


def run(cmd, env=None, cwd=None, timeout=None):
    e = dict(os.environ)
    if env:
        e.update(env)
    p = subprocess.run(cmd, env=e, cwd=cwd, stdout=subprocess.PIPE, stderr=subprocess.STDOUT,
                       timeout=timeout, text=True, errors="replace")
    return p.returncode, p.stdout


def build_harness():
    t = time.time()
    env = {"CARGO_NET_OFFLINE": "true"}
    rc, out = run(["cargo", "build", "--release", "--offline"], env=env, cwd=HARNESS, timeout=1800)
    if rc != 0:
        sys.stderr.write(out[-6000:])
        raise ToolError("harness build failed (does /repo compile?)")
    return time.time() - t


def tlc(module, cfg, metadir, env=None, workers=1, xmx="2g", timeout=3600, coverage=False, extra=None):
    os.makedirs(metadir, exist_ok=True)
    cmd = ["java", "-XX:+UseParallelGC", "-Xmx" + xmx, "-Xss1g",
           "-Dtlc2.tool.queue.IStateQueue=StateDeque" if workers == 1 else "-Dverif=1",
           "-cp", TLC_CP, "tlc2.TLC", "-workers", str(workers), "-checkpoint", "0", "-metadir", metadir, "-cleanup",
           "-noGenerateSpecTE", "-config", cfg]
    if coverage:
        cmd += ["-coverage", "1"]
    if extra:
        cmd += extra
    cmd.append(module)
    try:
        rc, out = run(cmd, env=env, cwd=SPEC, timeout=timeout)
    except subprocess.TimeoutExpired:
        raise ToolError("TLC timed out on %s" % module)
    finally:
        shutil.rmtree(metadir, ignore_errors=True)
    return rc, out


def ensure_landmarks():
    path = os.path.join(WORK, "landmarks.json")
    src = os.path.join(SPEC, "Landmarks.tla")
    if os.path.exists(path) and os.path.getmtime(path) >= max(os.path.getmtime(src), os.path.getmtime(os.path.join(SPEC, "BigInt.tla"))):
        return path
    os.makedirs(WORK, exist_ok=True)
    rc, out = tlc("Landmarks.tla", "Landmarks.cfg", os.path.join(WORK, "meta_lm_%d" % os.getpid()),
                  env={"LANDMARKS_OUT": path + ".tmp"}, timeout=600)
    if rc != 0 or not os.path.exists(path + ".tmp"):
        sys.stderr.write(out[-3000:])
        raise ToolError("landmark generation (TLC on Landmarks.tla) failed")
    os.replace(path + ".tmp", path)
    return path


# models whose states are few but expensive to evaluate (BigInt text rendering): TLC's coverage
# instrumentation exhausts the heap on them; they have a single next-state action, so the
# vacuity check does not apply
HEAVY_EVAL = {"MC_Text", "MC_Float"}

STATS_RE = re.compile(r"(\d+) states generated, (\d+) distinct states found")


def run_mc(name, workers=4, timeout=3600, xmx="8g", cfg=None, env=None):
    """L1: exhaustive TLC run of a scaled model. Returns dict(states, distinct, wall)."""
    t = time.time()
    module = name
    if not os.path.exists(os.path.join(SPEC, module + ".tla")):
        module = name.rsplit("_", 1)[0]          # MC_Calendar_quick -> MC_Calendar.tla + MC_Calendar_quick.cfg
    rc, out = tlc(module + ".tla", cfg or (name + ".cfg"), os.path.join(WORK, "meta_%s_%d" % (name, os.getpid())),
                  workers=(16 if name in HEAVY_EVAL else 8 if name == "MC_Scales" else workers), xmx=xmx, timeout=timeout,
                  coverage=(name not in HEAVY_EVAL), env=env)
    m = None
    for m in STATS_RE.finditer(out):
        pass
    ok = (rc == 0 and "No error has been found" in out and m is not None)
    if not ok:
        sys.stderr.write(out[-5000:])
        raise ToolError("L1 model %s: TLC did not report success (the specification, not the code, is at fault)" % name)
    # vacuity: every action of the next-state relation must have been taken
    zero = []
    for am in re.finditer(r"^<(\w+) line (\d+), col \d+ to line \d+, col \d+ of module (\w+)>: (\d+):(\d+)", out, re.M):
        if am.group(1) != "Init" and int(am.group(5)) == 0:
            zero.append(am.group(1) + "@" + am.group(3) + ":" + am.group(2))
    if zero:
        raise ToolError("L1 model %s: actions never taken (vacuous): %s" % (name, zero))
    return {"model": name, "states": int(m.group(1)), "distinct": int(m.group(2)), "wall_s": round(time.time() - t, 1)}


def validate_shard(args):
    """L3 for one shard: strict trace validation; after a rejected event resume at the next episode."""
    shard, cfg, tag = args
    with open(shard) as f:
        lines = f.read().splitlines()
    n = len(lines)
    res = {"shard": shard, "events": n, "rejected": [], "known": [], "drift": [], "states": 0, "tool_error": None, "runs": 0}
    if n == 0:
        return res
    start = 1
    while start <= n and len(res["rejected"]) < MAX_REJECTS_PER_SHARD:
        res["runs"] += 1
        env = {"TRACE": shard, "TRACE_START": str(start), "KNOWN_FILE": KNOWN}
        try:
            rc, out = tlc("Trace.tla", cfg, os.path.join(WORK, "meta_%s_%s_%d" % (tag, os.path.basename(shard), os.getpid())),
                          env=env, workers=1, timeout=7200)
        except ToolError as e:
            res["tool_error"] = str(e)
            return res
        for km in re.finditer(r'<<"KNOWN", "([^"]+)", (\d+)>>', out):
            res["known"].append((km.group(1), int(km.group(2))))
        for dm in re.finditer(r'<<"DRIFT", (\d+)>>', out):
            res["drift"].append(int(dm.group(1)))
        sm = None
        for sm in STATS_RE.finditer(out):
            pass
        if sm:
            res["states"] += int(sm.group(2))
        if '<<"ACCEPTED"' in out:
            return res
        st = re.search(r'<<"STUCK", (\d+), (\d+)>>', out)
        if not st:
            res["tool_error"] = "TLC failed on %s:\n%s" % (shard, out[-3000:])
            return res
        k = int(st.group(1))  # 1-based line that no action of the specification explains
        # the episode this event belongs to
        s = k
        while s > 1 and '"ep":true' not in lines[s - 1]:
            s -= 1
        res["rejected"].append({"line": k, "episode_start": s, "event": lines[k - 1], "episode": lines[s - 1:k]})
        # resume at the next episode start
        nxt = k + 1
        while nxt <= n and '"ep":true' not in lines[nxt - 1]:
            nxt += 1
        start = nxt
    return res


def gen_behaviours(module, out_path, num, depth, seed, per_prefix=4):
    """L2: TLC simulates the scaled machine and prints one JSON line per behaviour (history variable)."""
    cmd = ["java", "-XX:+UseParallelGC", "-Xmx2g", "-cp", TLC_CP, "tlc2.TLC", "-workers", "1",
           "-simulate", "num=%d" % num, "-depth", str(depth + 1), "-seed", str(seed),
           "-metadir", os.path.join(WORK, "meta_gen_%d" % os.getpid()), "-cleanup", "-noGenerateSpecTE",
           "-config", module + ".cfg", module + ".tla"]
    try:
        rc, out = run(cmd, cwd=SPEC, timeout=1800)
    finally:
        shutil.rmtree(os.path.join(WORK, "meta_gen_%d" % os.getpid()), ignore_errors=True)
    lines = []
    for m in re.finditer(r'<<"BEHAVIOUR", "(.*)">>', out):
        lines.append(m.group(1).replace('\\"', '"'))
    if not lines:
        sys.stderr.write(out[-2000:])
        raise ToolError("L2 generation: TLC printed no behaviour from %s" % module)
    # TLC evaluates the invariant on every candidate successor, so each simulated trace contributes all
    # the siblings of its last step: keep a few per prefix (deterministic for a given seed)
    import random
    rnd = random.Random(seed)
    groups = {}
    for ln in sorted(set(lines)):
        groups.setdefault(ln.rsplit(',{"op"', 1)[0], []).append(ln)
    lines = []
    for k in sorted(groups):
        g = groups[k]
        rnd.shuffle(g)
        lines.extend(g[:per_prefix])
    os.makedirs(os.path.dirname(out_path), exist_ok=True)
    with open(out_path, "w") as f:
        f.write("\n".join(lines) + "\n")
    return len(lines)


def _limbs(m):
    return sum(int(x) * 10000 ** i for i, x in enumerate(m))


def check_apa_tables():
    """The literal leap table and scale offsets of spec/apalache/APA_Scales.tla (Apalache needs literals) are the
    ones the specification derives from calendar dates (Real.tla, evaluated by TLC into work/landmarks.json)."""
    with open(ensure_landmarks()) as f:
        lm = json.load(f)
    want = [(_limbs(t), _limbs(d)) for t, d in lm["leap"]]
    refs = [(-1 if r["neg"] else 1) * _limbs(r["m"]) for r in lm["refs"]]
    src = open(os.path.join(SPEC, "apalache", "APA_Scales.tla")).read()
    body = src[src.index("Leap == <<"):src.index("NL ==")]
    got = [(int(a), int(b)) for a, b in re.findall(r"<<(\d+), (\d+)>>", body)]
    if got != want:
        raise ToolError("APA_Scales.tla: the literal leap table differs from the one derived in Real.tla")
    m = re.search(r"Ref == <<(.*?)>>", src)
    gref = [int(x) for x in m.group(1).split(",")]
    # TAI TT GPST GST BDT QZSST = scales 0 1 5 6 7 8
    if gref != [refs[i] for i in (0, 1, 5, 6, 7, 8)]:
        raise ToolError("APA_Scales.tla: the literal scale offsets differ from the ones derived in Real.tla")


def gen_class_strings(out_path):
    """L2 for the tokenizer model: TLC prints every class string MC_Tokenizer explores (one edit of each skeleton, all
    short strings); the harness concretises them and runs the real parser (event tok_model)."""
    rc, out = tlc("MC_Tokenizer.tla", "Gen_Tokens.cfg", os.path.join(WORK, "meta_gentok_%d" % os.getpid()), workers=4, timeout=1200)
    lines = sorted(set(m.group(1).replace('\\"', '"') for m in re.finditer(r'<<"CLS", "(.*)">>', out)))
    if not lines:
        sys.stderr.write(out[-2000:])
        raise ToolError("L2 generation: TLC printed no class string from MC_Tokenizer")
    with open(out_path, "w") as f:
        f.write("\n".join(lines) + "\n")
    return len(lines)


def run_apalache(module, invs, expect_error=()):
    """L1': symbolic check of refinement kernels at the REAL constants, all inputs (one SMT query each).
    A refuted kernel means the transcription/specification is wrong, not the code: tool error."""
    out = []
    if module == "APA_Scales.tla":
        check_apa_tables()
    work = os.path.join(WORK, "apa_%d" % os.getpid())
    for inv in list(invs) + list(expect_error):
        t = time.time()
        try:
            rc, o = run(["apalache-mc", "check", "--init=Init", "--next=Next", "--inv=" + inv, "--length=0",
                         "--out-dir=" + work, module], cwd=os.path.join(SPEC, "apalache"), timeout=1800)
        except subprocess.TimeoutExpired:
            raise ToolError("Apalache timed out on %s" % inv)
        ok = "The outcome is: NoError" in o
        err = "The outcome is: Error" in o
        shutil.rmtree(work, ignore_errors=True)
        if inv in expect_error:
            if not err:
                raise ToolError("Apalache did not refute %s (the control kernel): the symbolic check is vacuous" % inv)
        elif not ok:
            sys.stderr.write(o[-3000:])
            raise ToolError("Apalache kernel %s of %s not discharged (specification/transcription at fault)" % (inv, module))
        out.append({"kernel": inv, "outcome": "refuted (control)" if inv in expect_error else "NoError", "wall_s": round(time.time() - t, 1)})
    return out


def run_tlaps(module="DurationLemmas.tla"):
    """L1'' (TLAPS): machine-checked proofs of the lemmas of the abstract Duration type for all integers and any
    constants (spec/tlaps).  The proof cache is removed first so that every obligation is re-proved."""
    t = time.time()
    d = os.path.join(SPEC, "tlaps")
    shutil.rmtree(os.path.join(d, ".tlacache"), ignore_errors=True)
    try:
        rc, o = run(["tlapm", "--threads", "8", "--stretch", "6", module], cwd=d, timeout=1800)
    except subprocess.TimeoutExpired:
        o = "timeout"
    finally:
        shutil.rmtree(os.path.join(d, ".tlacache"), ignore_errors=True)
    m = re.search(r"All (\d+) obligations? proved", o)
    # the proofs are about the specification, not about the code: an unproved obligation (back-end time-outs on a
    # loaded machine) is reported in the evidence, it is neither a violation nor a reason to distrust the trace check
    if not m:
        f = re.search(r"(\d+)/(\d+) obligations failed", o)
        return {"module": module, "outcome": "NOT fully proved" + (" (%s of %s obligations failed)" % f.groups() if f else ""),
                "obligations_proved": 0, "wall_s": round(time.time() - t, 1)}
    return {"module": module, "outcome": "all obligations proved", "obligations_proved": int(m.group(1)), "wall_s": round(time.time() - t, 1)}


def load_known():
    if not os.path.exists(KNOWN):
        return {"findings": []}
    with open(KNOWN) as f:
        return json.load(f)


def record(prop, tier, seed, out_dir, landmarks, extra=None):
    """Run the harness against the real code; returns its meta."""
    shutil.rmtree(out_dir, ignore_errors=True)
    cmd = [HV, prop, "--tier", tier, "--seed", str(seed), "--out", out_dir, "--landmarks", landmarks]
    if extra:
        cmd += extra
    try:
        rc, out = run(cmd, timeout=7200)
    except subprocess.TimeoutExpired:
        raise ToolError("harness timed out")
    if rc != 0:
        sys.stderr.write(out[-4000:])
        raise ToolError("harness failed for %s (exit %d)" % (prop, rc))
    with open(os.path.join(out_dir, "meta.json")) as f:
        return json.load(f)


def validate_dir(out_dir, cfg, tag, jobs=16):
    shards = sorted(os.path.join(out_dir, f) for f in os.listdir(out_dir) if f.startswith("shard_"))
    shards = [s for s in shards if os.path.getsize(s) > 0]
    results = []
    with cf.ThreadPoolExecutor(max_workers=jobs) as ex:
        for r in ex.map(validate_shard, [(s, cfg, tag) for s in shards]):
            results.append(r)
    return results


def write_evidence(prop, tier, seed, level, coverage, wall, violations, assumptions):
    os.makedirs(EVID, exist_ok=True)
    ev = {"property_id": prop, "tier": tier, "seed": seed, "level": level, "coverage": coverage,
          "assumptions": assumptions, "wall_s": round(wall, 1), "violations": violations}
    with open(os.path.join(EVID, prop + ".json"), "w") as f:
        json.dump(ev, f, indent=1)
