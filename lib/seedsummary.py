#!/usr/bin/env python3
"""Write seeded/SUMMARY.md from the meta.json of every kept seeded change (seeded/<id>/meta.json)."""
import glob
import json
import os

ROOT = os.path.dirname(os.path.dirname(os.path.abspath(__file__)))


def main():
    rows = []
    for d in sorted(glob.glob(os.path.join(ROOT, "seeded", "*", "meta.json"))):
        name = os.path.basename(os.path.dirname(d))
        m = json.load(open(d))
        r = m.get("result", {})
        checks = r.get("checks", {})
        caught = [k for k, v in checks.items() if v.get("exit") == 1]
        silent = [k for k, v in checks.items() if v.get("exit") == 0]
        first = ""
        for k in caught:
            f = checks[k].get("first") or []
            if f:
                first = f[0].replace("no action of the specification explains: ", "")[:140]
                break
        hist = m.get("history", "")
        if m.get("retired"):
            hist = (hist + " RETIRED: " + m["retired"]).strip()
        rows.append((name, m.get("property"), m.get("summary", "").replace("|", "/").replace("\n", " ")[:260],
                     m.get("needs", "").replace("|", "/").replace("\n", " ")[:200],
                     ", ".join(caught) or "-", ", ".join(silent) or "-", first.replace("|", "/"), hist.replace("|", "/")))
    out = ["# Seeded changes", "",
           "Each row is a change written by a fresh sub-agent that saw only the text of one property and a scratch worktree",
           "of /repo (nothing from /verif).  Every one compiles, passes the repository's test suite, and comes with a",
           "demonstration (demo.rs) that fails with it and passes without; all of that was re-confirmed by lib/seedtest*.py",
           "before the quick tier of the named checks was run against it.  `caught by` lists the checks that exited 1 with a",
           "VIOLATION line; `history` records a change that an earlier version of the checks missed and what was strengthened.", "",
           "| seed | property | change | needs | caught by | ran silent | first unexplained event | history |",
           "|---|---|---|---|---|---|---|---|"]
    n_caught = 0
    for r in rows:
        if r[4] != "-":
            n_caught += 1
        out.append("| %s | %s | %s | %s | %s | %s | `%s` | %s |" % r)
    out += ["", "%d seeded changes kept, %d caught by the current checks." % (len(rows), n_caught), ""]
    open(os.path.join(ROOT, "seeded", "SUMMARY.md"), "w").write("\n".join(out))
    print("%d seeds, %d caught" % (len(rows), n_caught))
    for r in rows:
        if r[4] == "-":
            print("NOT CAUGHT:", r[0])


if __name__ == "__main__":
    main()
