#!/usr/bin/env python3
"""Evaluate seeded changes on a frozen snapshot, so that editing /verif or /repo meanwhile cannot
disturb the evaluation (and vice versa).

  seedtest2.py prepare                 snapshot /verif (working tree) to SNAP and create worktree WT of /repo HEAD
  seedtest2.py run <seed_src> <name> <prop> [<prop> ...]
                                       confirm the change in WT (suite passes with it, demo fails with / passes
                                       without), then run SNAP/bin/check <prop> against WT with the change applied
  seedtest2.py cleanup

The snapshot's harness depends on WT instead of /repo (one line of harness/Cargo.toml and the two data-file paths
are rewritten); everything else is the committed machinery.  Equivalent to `git -C /repo apply; bin/check; git -C /repo
checkout -- .`, which is what was run for the first batch (lib/seedtest.py).
"""
import json
import os
import shutil
import subprocess
import sys
import time

ROOT = os.path.dirname(os.path.dirname(os.path.abspath(__file__)))
SLOT = os.environ.get("SEEDSLOT", "")          # several evaluations can run side by side, one slot each
SNAP = "/tmp/verif_snap" + SLOT
WT = "/tmp/wt_eval" + SLOT


def sh(cmd, cwd=None, timeout=7200):
    p = subprocess.run(cmd, shell=True, cwd=cwd, stdout=subprocess.PIPE, stderr=subprocess.STDOUT, text=True, timeout=timeout, errors="replace")
    return p.returncode, p.stdout


def prepare():
    sh("git -C /repo worktree remove --force %s" % WT)
    shutil.rmtree(WT, ignore_errors=True)
    rc, o = sh("git -C /repo worktree add --detach %s HEAD" % WT)
    if rc != 0:
        raise SystemExit(o)
    os.makedirs(SNAP, exist_ok=True)
    rc, o = sh("rsync -a --delete --exclude work --exclude replays --exclude .git --exclude harness/target %s/ %s/" % (ROOT, SNAP))
    if rc != 0:
        raise SystemExit(o)
    for f, a, b in [("harness/Cargo.toml", 'path = "/repo"', 'path = "%s"' % WT),
                    ("harness/src/p_epoch.rs", '"/repo/data/leap-seconds.list"', '"%s/data/leap-seconds.list"' % WT),
                    ("harness/src/p_epoch.rs", '"/repo/naif0012.txt"', '"%s/naif0012.txt"' % WT)]:
        p = os.path.join(SNAP, f)
        s = open(p).read()
        assert a in s, (f, a)
        open(p, "w").write(s.replace(a, b))
    rc, o = sh("bin/check setup 2>&1 | tail -3", cwd=SNAP)
    print(o)


def confirm(src):
    """(git stash is shared by all worktrees of a repository, so concurrent slots must not use it: the change is
    undone and redone with `git apply -R` / `git apply` of the diff taken after the first application)"""
    res = {}
    sh("git reset -q --hard; rm -f tests/seed_demo.rs", cwd=WT)
    rc, out = sh("git apply %s/patch.diff" % src, cwd=WT)
    if rc != 0:
        rc, out = sh("git apply -3 %s/patch.diff" % src, cwd=WT)
        if rc != 0:
            sh("git reset -q --hard", cwd=WT)
            return {"applies": False, "log": out[-500:]}
        sh("git reset -q", cwd=WT)          # -3 stages the result: keep it in the working tree only
    res["applies"] = True
    cur = "/tmp/seed_current%s.diff" % SLOT
    rc, diff = sh("git diff", cwd=WT)
    open(cur, "w").write(diff)
    rc, out = sh("cargo test --workspace --no-fail-fast --offline 2>&1 | grep -E '^test result|^error' ", cwd=WT)
    res["suite_passes_with_change"] = ("FAILED" not in out and "error" not in out and out.count("test result: ok") >= 8)
    shutil.copy(os.path.join(src, "demo.rs"), os.path.join(WT, "tests", "seed_demo.rs"))
    rc, out = sh("cargo test --offline --test seed_demo 2>&1 | tail -5", cwd=WT)
    res["demo_fails_with_change"] = (rc != 0 or "FAILED" in out)
    rc, out = sh("git apply -R %s" % cur, cwd=WT)
    assert rc == 0, out
    rc, out = sh("cargo test --offline --test seed_demo 2>&1 | tail -5", cwd=WT)
    res["demo_passes_without_change"] = ("test result: ok" in out and "FAILED" not in out)
    sh("rm -f tests/seed_demo.rs", cwd=WT)
    rc, out = sh("git apply %s" % cur, cwd=WT)
    assert rc == 0, out
    rc, diff2 = sh("git diff", cwd=WT)
    assert diff2 == diff and diff.strip(), "the change is not in place"
    return res


def run(src, name, props):
    meta = json.load(open(os.path.join(src, "meta.json")))
    conf = confirm(src)
    ok = conf.get("applies") and conf.get("suite_passes_with_change") and conf.get("demo_fails_with_change") and conf.get("demo_passes_without_change")
    result = {"confirmed": bool(ok), "confirmation": conf}
    if ok:
        checks = {}
        for p in props:
            t = time.time()
            rc, d0 = sh("git diff --stat", cwd=WT)
            assert d0.strip(), "the change is not in place"
            rc, o = sh("bin/check %s --tier quick" % p, cwd=SNAP)
            open("/tmp/seedcheck_%s_%s.log" % (name, p), "w").write(o)
            viol = [ln for ln in o.splitlines() if ln.startswith("VIOLATION")]
            why = [ln.strip()[:300] for ln in o.splitlines() if "no action of the specification explains" in ln][:3]
            checks[p] = {"exit": rc, "violations": len(viol), "first": why, "wall_s": round(time.time() - t)}
            if rc == 2:
                checks[p]["tool_error"] = o[-800:]
        result["checks"] = checks
        result["detected"] = any(v["exit"] == 1 for v in checks.values())
        if not result["detected"] and any(v["exit"] == 2 for v in checks.values()):
            result["detected"] = None          # the machinery failed (tool error): not an evaluation
            result["tool_error"] = True
        # the patch as it applies to the current tree
        rc, diff = sh("git diff", cwd=WT)
        dst = os.path.join(ROOT, "seeded", name)
        os.makedirs(dst, exist_ok=True)
        open(os.path.join(dst, "patch.diff"), "w").write(diff)
        if os.path.abspath(src) != os.path.abspath(dst):
            shutil.copy(os.path.join(src, "demo.rs"), dst)
        meta.update({"what_i_ran": "confirmed in a scratch worktree of /repo HEAD: cargo test --workspace --no-fail-fast --offline passes with the change; tests/seed_demo.rs fails with it and passes without it. Then bin/check <id> --tier quick for %s, from a frozen snapshot of /verif whose harness builds that worktree with the change applied (lib/seedtest2.py); worktree reset afterwards." % props,
                     "result": result})
        json.dump(meta, open(os.path.join(dst, "meta.json"), "w"), indent=1)
    sh("git reset -q --hard; rm -f tests/seed_demo.rs", cwd=WT)
    print(json.dumps({"name": name, **result}, indent=1))


if __name__ == "__main__":
    if sys.argv[1] == "prepare":
        prepare()
    elif sys.argv[1] == "cleanup":
        sh("git -C /repo worktree remove --force %s" % WT)
        shutil.rmtree(SNAP, ignore_errors=True)
    else:
        run(sys.argv[2], sys.argv[3], sys.argv[4:])
