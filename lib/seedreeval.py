#!/usr/bin/env python3
"""Re-evaluate a kept seeded change against the CURRENT checks of /verif, in /repo itself:
     git -C /repo apply seeded/<id>/patch.diff; bin/check <prop> --tier quick; git -C /repo checkout -- .
   and record the outcome in seeded/<id>/meta.json (the first evaluation is kept under first_evaluation).
   seedreeval.py <id> <why it was missed / what was strengthened> [<prop> ...]"""
import json
import os
import subprocess
import sys
import time

ROOT = os.path.dirname(os.path.dirname(os.path.abspath(__file__)))


def sh(cmd, cwd=None):
    p = subprocess.run(cmd, shell=True, cwd=cwd, stdout=subprocess.PIPE, stderr=subprocess.STDOUT, text=True, errors="replace")
    return p.returncode, p.stdout


def main():
    name, why = sys.argv[1], sys.argv[2]
    d = os.path.join(ROOT, "seeded", name)
    meta = json.load(open(os.path.join(d, "meta.json")))
    props = sys.argv[3:] or [meta["property"]]
    rc, o = sh("git status --porcelain", cwd="/repo")
    assert not o.strip(), "/repo has uncommitted changes"
    rc, o = sh("git apply %s/patch.diff" % d, cwd="/repo")
    assert rc == 0, o
    checks = {}
    try:
        for p in props:
            t = time.time()
            rc, o = sh("bin/check %s --tier quick" % p, cwd=ROOT)
            viol = [ln for ln in o.splitlines() if ln.startswith("VIOLATION")]
            why_lines = [ln.strip()[:300] for ln in o.splitlines() if "no action of the specification explains" in ln][:3]
            checks[p] = {"exit": rc, "violations": len(viol), "first": why_lines, "wall_s": round(time.time() - t)}
    finally:
        sh("git checkout -- .", cwd="/repo")
    if "first_evaluation" not in meta:
        meta["first_evaluation"] = meta.get("result")
    meta["result"] = {"confirmed": True, "checks": checks, "detected": any(v["exit"] == 1 for v in checks.values()),
                      "how": "git -C /repo apply; bin/check <id> --tier quick in /verif; git -C /repo checkout -- ."}
    meta["history"] = why
    json.dump(meta, open(os.path.join(d, "meta.json"), "w"), indent=1)
    print(name, json.dumps(meta["result"]["checks"])[:600])


if __name__ == "__main__":
    main()
