#!/usr/bin/env python3
"""Run a queue of seeded-change evaluations over several prepared slots (lib/seedtest2.py prepare with SEEDSLOT=<s>).
   seedqueue.py <slots e.g. abc> <job> [<job> ...]     job = <src_dir>:<name>:<prop>[,<prop>...]
"""
import os
import queue
import subprocess
import sys
import threading

ROOT = os.path.dirname(os.path.dirname(os.path.abspath(__file__)))


def worker(slot, q):
    while True:
        try:
            job = q.get_nowait()
        except queue.Empty:
            return
        src, name, props = job.split(":")
        env = dict(os.environ, SEEDSLOT=slot)
        p = subprocess.run([sys.executable, os.path.join(ROOT, "lib", "seedtest2.py"), "run", src, name] + props.split(","),
                           env=env, stdout=subprocess.PIPE, stderr=subprocess.STDOUT, text=True)
        with open("/tmp/seedq_%s.log" % name, "w") as f:
            f.write(p.stdout)
        tail = [ln for ln in p.stdout.splitlines() if '"detected"' in ln or '"confirmed"' in ln]
        print(name, slot, " ".join(t.strip() for t in tail), flush=True)


def main():
    slots = sys.argv[1]
    q = queue.Queue()
    for j in sys.argv[2:]:
        q.put(j)
    ts = [threading.Thread(target=worker, args=(s, q)) for s in slots]
    for t in ts:
        t.start()
    for t in ts:
        t.join()


if __name__ == "__main__":
    main()
