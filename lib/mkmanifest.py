#!/usr/bin/env python3
"""Regenerates MANIFEST.json from lib/props.py (the claimed properties) and properties.jsonl."""
import json, os, sys
ROOT = os.path.dirname(os.path.dirname(os.path.abspath(__file__)))
sys.path.insert(0, os.path.join(ROOT, "lib"))
from props import PROPS, NOT_APPLICABLE

ids = [json.loads(l)["id"] for l in open(os.path.join(ROOT, "properties.jsonl"))]
checks = []
for pid in ids:
    if pid not in PROPS:
        continue
    P = PROPS[pid]
    checks.append({
        "property_id": pid,
        "quick_cmd": "bin/check %s --tier quick" % pid,
        "thorough_cmd": "bin/check %s --tier thorough" % pid,
        "evidence_file": "evidence/%s.json" % pid,
        "replay_cmd_template": "bin/check replay {path}",
        "engine": "tla-trace",
        "level_claimed": {
            "category": "model_checking",
            "text": P["level_text"],
            "design_ref": "DESIGN.md section 5, %s" % pid,
        },
        "level_note": P.get("level_note", "Trusted: TLC 1.8.0, the pure-TLA+ BigInt carrier (self-checked by MC_BigInt), the harness projection (raw to_parts/bits/code points of what the real API returned). At the real constants inputs are sampled (TLC-generated landmark grids + seeded random), exhaustive only on the scaled model."),
        "technique": P.get("technique", "explicit TLA+ specification; TLC exhaustive on the scaled model (L1)"
                           + ("; Apalache, real constants, all inputs, for the linear kernels and the implementation-shaped transcription (L1')" if P.get("apalache") else "")
                           + ("; TLAPS proofs of the underlying lemmas for all integers (thorough tier)" if P.get("tlaps") else "")
                           + ("; TLC-generated behaviours of the scaled machine replayed in the real code (L2)" if P.get("l2") else "")
                           + ("; the system machine (spec/Hifitime.tla): exhaustive on its scaled instance (MC_Hifitime) and TLC-generated chains of calls across the types replayed in the real code (Gen_Hifitime)" if P.get("l2sys") else "")
                           + "; TLC trace validation of recorded calls of the real code at the real constants (L3, the alarm source)"),
    })
na = [{"property_id": p, "reason": NOT_APPLICABLE.get(p, "check not built yet (work in progress; DESIGN.md section 11)")} for p in ids if p not in PROPS]
m = {
    "version": 1,
    "setup_cmd": "bin/check setup",
    "hooks": {
        "guard": "hifitime_verif",
        "enable": "harness/.cargo/config.toml builds /repo (path dependency) with --cfg hifitime_verif; no hook is needed: the public API exposes the whole abstract state (to_parts, time_scale, iterator results, Result values), so source_commits is empty",
        "baseline_off_cmd": "cd /repo && cargo test --workspace --no-fail-fast --offline",
        "source_commits": [],
        "add_only": True,
    },
    "engines": [
        {"name": "tla-trace", "path": "bin/check", "serves_properties": [c["property_id"] for c in checks],
         "kind_free_text": "explicit TLA+ specification (spec/*.tla): exhaustive TLC model checking of scaled instances, and TLC trace validation of ndjson traces recorded from the real code by the Rust harness (harness/), at the real constants on a pure-TLA+ big-integer carrier"},
    ],
    "checks": checks,
    "notes": "bin/check <id> rebuilds the harness from /repo's working tree, runs the L1 model(s) with TLC, records the real code, validates every recorded call with TLC against spec/Trace.tla. known_findings.json lists genuine defects (open: accepted by a named deviation action and printed as KNOWN-FINDING; fixed: suppress nothing).",
    "not_applicable": na,
}
json.dump(m, open(os.path.join(ROOT, "MANIFEST.json"), "w"), indent=1)
print("checks:", [c["property_id"] for c in checks], "not claimed:", [x["property_id"] for x in na])
